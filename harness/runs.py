"""Run a generated program on a real executor with a recording callback (and optionally a
tracing store); return the event trace and the abstraction of the finalized DAG."""
from __future__ import annotations

import networkx as nx

from harness import gen_programs as G


def node_id(n):
    if n == "create-arrays":
        return 0
    if n == "arrays":
        return 1
    return 2 + int(n.rsplit("-", 1)[1]) * 2 + (1 if n.startswith("array-") else 0)


def make_executor(exname, **opts):
    from cubed.runtime.create import create_executor

    return create_executor(exname, opts or None)


def run_with_events(prog, exname="single-threaded", exec_kwargs=None, optimize_graph=True, spec_kwargs=None,
                    store=None, resume=None, executor=None, prebuilt=None):
    import cubed

    events = []
    info = {}

    class CB(cubed.Callback):
        def on_compute_start(self, event):
            events.append(("CS",))
            info["dag"] = event.dag
            info["plan"] = getattr(event, "plan", None)

        def on_compute_end(self, event):
            events.append(("CE",))

        def on_operation_start(self, event):
            events.append(("OS", node_id(event.name)))

        def on_operation_end(self, event):
            events.append(("OE", node_id(event.name)))

        def on_task_end(self, event):
            events.append(("TE", node_id(event.name)))

    skw = dict(allowed_mem="500MB")
    skw.update(spec_kwargs or {})
    if store is not None:
        skw["intermediate_store"] = store
    spec = cubed.Spec(**skw)
    if prebuilt is not None:
        env = {}
        outs = list(prebuilt(spec))       # e.g. the arrays returned by store(..., compute=False)
    else:
        env = G.build(prog, spec)
        outs = [env[o] for o in prog["outs"]]
    ex = executor if executor is not None else make_executor(exname)
    res = cubed.compute(*outs, executor=ex, callbacks=[CB()], optimize_graph=optimize_graph, resume=resume,
                        **({"_return_in_memory_array": False} if prebuilt is not None else {}), **(exec_kwargs or {}))
    dag = info["dag"]
    plan = info["plan"]
    nodes = [node_id(n) for n in dag.nodes]
    edges = sorted({(node_id(u), node_id(v)) for u, v in dag.edges()})
    ops = {}
    for n, d in dag.nodes(data=True):
        if d.get("pipeline") is not None and not d.get("computed", False):
            ops[node_id(n)] = dict(name=n, num_tasks=int(d["primitive_op"].num_tasks),
                                   mappable_len=len(list(d["pipeline"].mappable)))
    is_op = sorted(node_id(n) for n, d in dag.nodes(data=True) if d.get("type") == "op" or n == "create-arrays")
    return dict(events=events, nodes=nodes, edges=edges, ops=ops, is_op=is_op, plan=plan, dag=dag, results=res,
                outs=outs, env=env, spec=spec)


def ev_term(e):
    return {"CS": "ECS", "CE": "ECE"}.get(e[0]) or {"OS": "EOS", "OE": "EOE", "TE": "ETE"}[e[0]] + f" {e[1]}"


def trace_term(events):
    return "[" + "; ".join(ev_term(e) for e in events) + "]"


def pairs_term(pairs):
    return "[" + "; ".join(f"({a}, {b})" for a, b in pairs) + "]"


CONFIGS = [
    ("single-threaded", {}),
    ("threads", {}),
    ("threads", {"compute_arrays_in_parallel": True}),
    ("threads", {"batch_size": 1}),
    ("threads", {"batch_size": 2, "compute_arrays_in_parallel": True}),
    ("threads", {"max_workers": 1}),
    ("threads", {"max_workers": 3, "compute_arrays_in_parallel": True, "batch_size": 3}),
    ("processes", {"max_workers": 2}),
    ("processes", {"max_workers": 2, "compute_arrays_in_parallel": True}),
]


def pick_config(rng, allow_processes=False):
    while True:
        c = rng.choice(CONFIGS)
        if c[0] == "processes" and not allow_processes:
            continue
        return c
