"""Observation of real task executions through the tracing store + adversarial executor."""
from __future__ import annotations

import warnings

from harness import gen_programs as G
from harness.adv_executor import AdvExecutor
from harness.tracing_store import CrashNow, Trace, TracingStore, is_chunk_key


def parse_key(key):
    """'array-003/c/0/1' -> (3, (0, 1)); metadata and non-cubed keys -> None."""
    parts = key.split("/")
    if not is_chunk_key(key):
        return None
    name = parts[0]
    try:
        aid = int(name.rsplit("-", 1)[1])
    except Exception:
        return None
    i = parts.index("c", 1)
    coords = tuple(int(x) for x in parts[i + 1:] if x != "")
    return (aid, coords) + ((tuple(parts[1:i]),) if i > 1 else ())


class Built:
    """A program built once over a clearable in-memory tracing store."""

    def __init__(self, prog, spec_kwargs=None, local=False):
        import cubed
        import zarr

        self.trace = Trace()
        self.local = None
        if local:
            import os
            import tempfile

            self.local = tempfile.mkdtemp(prefix="vbuilt_", dir="/dev/shm" if os.path.isdir("/dev/shm") else None)
            self.mem = zarr.storage.LocalStore(self.local)
        else:
            self.mem = zarr.storage.MemoryStore()
        self.store = TracingStore(self.mem, self.trace)
        kw = dict(allowed_mem="500MB", intermediate_store=self.store)
        kw.update(spec_kwargs or {})
        self.spec = cubed.Spec(**kw)
        self.prog = prog
        self.env = G.build(prog, self.spec)
        self.outs = [self.env[o] for o in prog["outs"]]

    def clear(self):
        if self.local:
            import os
            import shutil

            for f in os.listdir(self.local):
                shutil.rmtree(os.path.join(self.local, f), ignore_errors=True)
        else:
            self.mem._store_dict.clear()
        self.trace.clear()
        self.trace.write_budget = None

    def close(self):
        if self.local:
            import shutil

            shutil.rmtree(self.local, ignore_errors=True)

    def snapshot(self):
        if self.local:
            import os

            out = {}
            for root, _, files in os.walk(self.local):
                for f in files:
                    pth = os.path.join(root, f)
                    out[os.path.relpath(pth, self.local)] = open(pth, "rb").read()
            return out
        return {k: bytes(v.to_bytes()) if hasattr(v, "to_bytes") else bytes(v) for k, v in self.mem._store_dict.items()}

    def compute(self, executor, optimize_graph=True, resume=None, callbacks=None):
        import cubed

        with warnings.catch_warnings():
            warnings.simplefilter("ignore")
            return cubed.compute(*self.outs, executor=executor, optimize_graph=optimize_graph, resume=resume,
                                 callbacks=callbacks)

    def task_observations(self):
        """events -> {(op name, task key): {"reads": set, "writes": list, "execs": n}} in execution order."""
        obs = {}
        order = []
        for (_, kind, key, info, task, t0, t1) in self.trace.events:
            if task is None:
                continue
            pk = parse_key(key)
            if pk is None:
                continue
            o = obs.get(task)
            if o is None:
                o = obs[task] = {"reads": [], "writes": [], "sets": 0}
                order.append(task)
            if kind == "get":
                if pk not in o["reads"]:
                    o["reads"].append(pk)
            elif kind == "set":
                o["writes"].append(pk)
        return obs, order


def key_term(pk):
    return f"({pk[0]}, [" + "; ".join(str(c) for c in pk[1]) + "])"


def keys_term(pks):
    return "[" + "; ".join(key_term(p) for p in pks) + "]"
