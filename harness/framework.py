"""Common machinery of every check: Coq build + Print Assumptions, evaluation of
generated case files inside Coq (vm_compute), findings, verdict, evidence.

Run through /verif/check (PYTHONPATH=/repo:/verif, PYTHONHASHSEED=0)."""
from __future__ import annotations

import fcntl
import hashlib
import json
import os
import random
import re
import subprocess
import sys
import time
import traceback
from pathlib import Path

VERIF = Path("/verif")
COQ = VERIF / "coq"
BUILD = VERIF / "build"
EVID = VERIF / "evidence"
REPLAYS = VERIF / "replays"
# the checks run against /repo; tools/try_seed.sh runs them against a scratch worktree carrying a seeded change
# (VERIF_REPO), with every per-run output (case files, evidence, replays) redirected so that the record of /repo is untouched
REPO = os.environ.get("VERIF_REPO", "/repo")
if REPO != "/repo":
    _alt = BUILD / ("alt_" + re.sub(r"\W+", "_", REPO))
    EVID = _alt / "evidence"
    REPLAYS = _alt / "replays"
    CASES = _alt / "cases"
    PA = _alt / "pa"
else:
    CASES = BUILD / "cases"
    PA = BUILD / "pa"
FINDINGS = VERIF / "known_findings.json"

THEOREM_RE = re.compile(
    r"^\s*(?:Theorem|Lemma|Example|Corollary|Fact|Proposition)\s+([A-Za-z_][\w']*)", re.M
)


# --------------------------------------------------------------------------
# Coq side
# --------------------------------------------------------------------------
def _run(cmd, cwd=None, timeout=3000, inp=None):
    p = subprocess.run(
        cmd, cwd=cwd, stdout=subprocess.PIPE, stderr=subprocess.STDOUT, text=True,
        timeout=timeout, input=inp,
    )
    return p.returncode, p.stdout


def coq_sources():
    return sorted(
        [str(p.relative_to(COQ)) for d in ("Model", "Proofs", "Props") for p in (COQ / d).glob("*.v")]
    )


def coq_build():
    """Full .vo build of /verif/coq (no-op when up to date). Returns (ok, log)."""
    BUILD.mkdir(exist_ok=True)
    with open(BUILD / ".lock", "w") as lk:
        fcntl.flock(lk, fcntl.LOCK_EX)
        srcs = coq_sources()
        proj = "-Q . CubedV\n" + "\n".join(srcs) + "\n"
        pf = COQ / "_CoqProject"
        if not pf.exists() or pf.read_text() != proj or not (COQ / "Makefile").exists():
            pf.write_text(proj)
            rc, out = _run(["coq_makefile", "-f", "_CoqProject", "-o", "Makefile"], cwd=COQ)
            if rc != 0:
                return False, out
        rc, out = _run(["timeout", "3000", "make", "-j16", "-k"], cwd=COQ, timeout=3100)
        return rc == 0, out


_dep_cache = {}


def _direct_deps(rel):
    if rel in _dep_cache:
        return _dep_cache[rel]
    txt = (COQ / rel).read_text()
    deps = []
    for m in re.finditer(r"From\s+CubedV\s+Require\s+(?:Import|Export)\s+(.*?)\.(?=\s)", txt, re.S):
        for name in m.group(1).split():
            cand = name.replace(".", "/") + ".v"
            if (COQ / cand).exists():
                deps.append(cand)
    _dep_cache[rel] = deps
    return deps


def cone(rel):
    """Transitive project-local dependencies of a .v file (including itself)."""
    seen, todo = [], [rel]
    while todo:
        f = todo.pop()
        if f in seen:
            continue
        seen.append(f)
        todo.extend(_direct_deps(f))
    return sorted(seen)


def theorems_in(files):
    names = []
    for f in files:
        for m in THEOREM_RE.finditer((COQ / f).read_text()):
            names.append(f"{f}:{m.group(1)}")
    return names


def print_assumptions(prop):
    """Re-compile Props/<prop>.v into a scratch dir capturing Print Assumptions."""
    src = COQ / "Props" / f"{prop}.v"
    if not src.exists():
        return False, "no Props file", []
    pad = PA
    pad.mkdir(parents=True, exist_ok=True)
    rc, out = _run(
        ["timeout", "600", "coqc", "-Q", str(COQ), "CubedV", "-o", str(pad / f"{prop}.vo"), str(src)],
        cwd=COQ, timeout=700,
    )
    axioms = []
    blocks = re.split(r"\n(?=Closed under the global context|Axioms:)", "\n" + out)
    for b in blocks:
        b = b.strip()
        if b.startswith("Axioms:"):
            for line in b.splitlines()[1:]:
                m = re.match(r"^([A-Za-z_][\w'.]*)\s*:", line)
                if m:
                    axioms.append(m.group(1))
    closed = out.count("Closed under the global context")
    return rc == 0, out, sorted(set(axioms)) if axioms else ([] if closed else ["<no Print Assumptions output>"])


# ---- Python -> Coq term printers -----------------------------------------
def cnat(n):
    # above 5000 Coq reads a nat literal through Nat.of_num_uint (a warning, not an error); ids of arrays created late in a
    # long-running worker reach tens of thousands - sizes and counts never do
    assert 0 <= n < 300000, f"nat literal too large: {n}"
    return f"{int(n)}"


def cZ(z):
    z = int(z)
    return f"({z})%Z"


def clist(xs, f=cnat):
    return "[" + "; ".join(f(x) for x in xs) + "]"


def cnatlist(xs):
    return clist(xs, cnat)


def cnatlist2(xs):
    return clist(xs, cnatlist)


def cZlist(xs):
    return clist(xs, cZ)


def cbool(b):
    return "true" if b else "false"


def copt(x, f):
    return "None" if x is None else f"(Some {f(x)})"


def cpair(a, b):
    return f"({a}, {b})"


_BIGNAT = re.compile(r"(?<![\w.])(\d{3,})(?![\w.]|\)%[ZN]|%)")


def compact_nats(expr, defs):
    """nat literals below 5000 are expanded by Coq's parser into unary S (S ...) terms: a case that mentions array / op ids in
    the thousands (long-running workers) takes 10-30 s just to elaborate.  Outside Z_scope every bare literal >= 200 is
    written as (N.to_nat n%N) instead: a binary literal, converted by vm_compute.  Z literals are always printed as (n)%Z by
    cZ and are left alone."""
    if defs and "Z_scope" in defs:
        return expr
    return _BIGNAT.sub(lambda m: m.group(0) if int(m.group(1)) < 200 else f"(N.to_nat {m.group(1)}%N)", expr)


def run_case_file(name, imports, defs, exprs, timeout=1800):
    """exprs: list of Coq bool terms. Returns (failing index list, raw output, ok)."""
    BUILD.mkdir(exist_ok=True)
    d = CASES
    d.mkdir(parents=True, exist_ok=True)
    path = d / f"{name}.v"
    body = ["From Coq Require Import NArith.", f"From CubedV Require Import {imports}.", 'Set Warnings "-abstract-large-number".', "Open Scope nat_scope.", defs or ""]
    for i, e in enumerate(exprs):
        body.append(f"Definition case_{i} : bool := {compact_nats(e, defs)}.")
    body.append("Definition all_cases : list bool := [" + "; ".join(f"case_{i}" for i in range(len(exprs))) + "].")
    body.append("Eval vm_compute in (failing all_cases).")
    path.write_text("\n".join(body) + "\n")
    rc, out = _run(
        ["timeout", str(timeout), "coqc", "-noglob", "-Q", str(COQ), "CubedV", str(path)], cwd=d, timeout=timeout + 30
    )
    for ext in (".vo", ".vok", ".vos", ".glob"):
        try:
            (d / f"{name}{ext}").unlink()
        except OSError:
            pass
    try:
        (d / f".{name}.aux").unlink()
    except OSError:
        pass
    if rc != 0:
        return None, out, False
    m = re.search(r"=\s*(\[[^\]]*\])", out.replace("\n", " "))
    if not m:
        return None, out, False
    nums = [int(x) for x in re.findall(r"\d+", m.group(1))]
    return nums, out, True


def coq_eval(name, imports, defs, expr, timeout=300):
    """Evaluate one Coq term with vm_compute and return the printed text."""
    d = CASES
    d.mkdir(parents=True, exist_ok=True)
    path = d / f"{name}.v"
    path.write_text(
        f"From Coq Require Import NArith.\nFrom CubedV Require Import {imports}.\nSet Warnings \"-abstract-large-number\".\nOpen Scope nat_scope.\n{defs or ''}\nEval vm_compute in ({compact_nats(expr, defs)}).\n"
    )
    rc, out = _run(["timeout", str(timeout), "coqc", "-noglob", "-Q", str(COQ), "CubedV", str(path)], cwd=d, timeout=timeout + 30)
    for ext in (".vo", ".vok", ".vos", ".glob"):
        try:
            (d / f"{name}{ext}").unlink()
        except OSError:
            pass
    return out.strip()


# --------------------------------------------------------------------------
# Context handed to property modules
# --------------------------------------------------------------------------
class Ctx:
    def __init__(self, prop, tier, seed):
        self.prop = prop
        self.tier = tier
        self.seed = seed
        self.rng = random.Random(seed * 1000003 + int(prop[1:]))
        self.t0 = time.time()
        self.suites = []          # correspondence suites
        self.failures = []        # oracle failures on the implementation
        self.evaluations = 0
        self.nontrivial = set()
        self.samples = []
        self.dist = {}
        self.notes = []
        self.assumptions = []
        self.traces_validated = 0
        self.deadline = None

    # budgets -------------------------------------------------------------
    def n(self, quick, thorough):
        base = quick if self.tier == "quick" else thorough
        return int(base * getattr(self, "scale", 1))

    def elapsed(self):
        return time.time() - self.t0

    # bookkeeping ---------------------------------------------------------
    def count(self, key, k=1):
        self.dist[key] = self.dist.get(key, 0) + k

    def nt(self, key):
        """Register one distinct non-trivial case (key must identify the case)."""
        if not isinstance(key, str):
            key = json.dumps(key, sort_keys=True, default=str)
        self.nontrivial.add(hashlib.sha1(key.encode()).hexdigest()[:16])

    def sample(self, obj, limit=6):
        if len(self.samples) < limit:
            self.samples.append(obj)

    def fail(self, key, what, replay):
        """An observed violation of the property statement on the implementation."""
        self.failures.append({"key": key, "what": what, "replay": replay})

    # correspondence ------------------------------------------------------
    def corr(self, suite, imports, cases, defs="", chunk=400, show=None):
        """cases: list of dicts {expr: <Coq bool>, desc: <json-able>, show: <Coq term> (optional)}.
        Evaluates every expr inside Coq; records mismatches (expr evaluated to false)."""
        rec = {"suite": suite, "cases": len(cases), "mismatches": [], "errors": []}
        self.suites.append(rec)
        if not cases:
            return rec
        jobs = []
        for k in range(0, len(cases), chunk):
            jobs.append((k, cases[k:k + chunk]))
        from concurrent.futures import ThreadPoolExecutor

        def work(job):
            k, cs = job
            nm = f"{self.prop}_{suite}_{k // chunk}"
            return k, cs, run_case_file(nm, imports, defs, [c["expr"] for c in cs])

        with ThreadPoolExecutor(max_workers=8) as ex:
            results = list(ex.map(work, jobs))
        for k, cs, (bad, out, ok) in results:
            if not ok:
                rec["errors"].append({"file_index": k // chunk, "output": out[-1500:]})
                continue
            for i in bad:
                c = cs[i]
                m = {"index": k + i, "desc": c.get("desc"), "expr": c["expr"][:2000]}
                if c.get("show") and len(rec["mismatches"]) < 3:     # what the model says: for the first few mismatches only
                    m["model_says"] = coq_eval(f"{self.prop}_{suite}_show", imports, defs, c["show"])[-1500:]
                rec["mismatches"].append(m)
        return rec


class Partial:
    """Picklable accumulator used by worker processes; merged into the Ctx by Ctx.pmap."""

    def __init__(self, seed, tier):
        self.rng = random.Random(seed)
        self.tier = tier
        self.evaluations = 0
        self.dist = {}
        self.nontrivial = set()
        self.samples = []
        self.failures = []
        self.cases = {}
        self.traces_validated = 0

    def n(self, quick, thorough):
        return quick if self.tier == "quick" else thorough

    count = Ctx.count
    nt = Ctx.nt
    sample = Ctx.sample
    fail = Ctx.fail

    def case(self, suite, c):
        self.cases.setdefault(suite, []).append(c)


def _pmap_worker(args):
    func, seed, tier, item = args
    import warnings
    warnings.filterwarnings("ignore")
    part = Partial(seed, tier)
    part.rng_item = item
    # forked workers inherit cubed's per-process context directory and name counters: give each worker its own directory,
    # otherwise arrays of different workers collide in the default intermediate store
    try:
        import uuid
        import cubed.core.plan as _cp
        _cp.CONTEXT_ID = f"cubed-verif-{os.getpid()}-{uuid.uuid4()}"
    except Exception:
        pass
    try:
        func(part, item)
    except Exception:
        part.fail("harness-worker-crash", traceback.format_exc()[-1500:], {"item": str(item)[:500]})
    part.rng = None
    return part


def pmap(ctx, func, items, procs=12):
    """Run func(partial, item) for every item in worker processes (fork); merge results into ctx.
    Returns dict suite -> list of cases."""
    import multiprocessing as mp

    seeds = [ctx.rng.getrandbits(48) for _ in items]
    args = [(func, sd, ctx.tier, it) for sd, it in zip(seeds, items)]
    cases = {}
    if procs <= 1 or len(items) <= 1:
        parts = [_pmap_worker(a) for a in args]
    else:
        with mp.get_context("fork").Pool(min(procs, len(items))) as pool:
            parts = pool.map(_pmap_worker, args, chunksize=1)
    for part in parts:
        ctx.evaluations += part.evaluations
        for k, v in part.dist.items():
            ctx.dist[k] = ctx.dist.get(k, 0) + v
        ctx.nontrivial |= part.nontrivial
        for smp in part.samples:
            ctx.sample(smp)
        ctx.failures.extend(part.failures)
        ctx.traces_validated += part.traces_validated
        for suite, cs in part.cases.items():
            cases.setdefault(suite, []).extend(cs)
    return cases


# --------------------------------------------------------------------------
# findings + verdict + evidence
# --------------------------------------------------------------------------
def load_findings(prop):
    if not FINDINGS.exists():
        return []
    data = json.loads(FINDINGS.read_text())
    return [f for f in data.get("known", []) if f["property"] == prop]


def write_replay(prop, kind, obj):
    REPLAYS.mkdir(parents=True, exist_ok=True)
    h = hashlib.sha1(json.dumps(obj, sort_keys=True, default=str).encode()).hexdigest()[:10]
    p = REPLAYS / f"{prop}_{kind}_{h}.json"
    p.write_text(json.dumps(obj, indent=1, default=str))
    return p


def main(argv):
    prop = argv[0]
    tier = "quick"
    replay = None
    args = argv[1:]
    while args:
        a = args.pop(0)
        if a in ("quick", "thorough"):
            tier = a
        elif a == "--replay":
            replay = args.pop(0)
    tier = os.environ.get("VERIF_TIER", tier) if len(argv) < 2 else tier
    seed = int(os.environ.get("VERIF_SEED", "0") or 0)
    import importlib

    mod = importlib.import_module(f"harness.props.{prop.lower()}")
    ctx = Ctx(prop, tier, seed)

    if replay:
        obj = json.loads(Path(replay).read_text())
        rc = mod.replay(ctx, obj)
        sys.exit(rc or 0)

    # case files of earlier runs of this property are removed first
    if CASES.exists():
        for f in CASES.glob(f"{prop}_*"):
            try:
                f.unlink()
            except OSError:
                pass
        for f in CASES.glob(f".{prop}_*"):
            try:
                f.unlink()
            except OSError:
                pass

    # 1. proofs ---------------------------------------------------------------
    ok_build, build_log = coq_build()
    propfile = f"Props/{prop}.v"
    files = cone(propfile) if (COQ / propfile).exists() else []
    thms = theorems_in(files)
    broken_files = []
    for f in files:
        if not (COQ / f).with_suffix(".vo").exists():
            broken_files.append(f)
    pa_ok, pa_out, axioms = print_assumptions(prop) if not broken_files else (False, build_log[-3000:], [])
    proofs_ok = bool(files) and not broken_files and pa_ok
    coqchk_summary = None
    if tier == "thorough" and proofs_ok:
        # independent re-check of the compiled property file and everything it depends on
        rc, out = _run(["timeout", "3000", "coqchk", "-silent", "-o", "-Q", str(COQ), "CubedV", f"CubedV.Props.{prop}"], cwd=COQ, timeout=3100)
        m = re.search(r"\* Axioms:(.*?)\n\s*\n", out, re.S)
        coqchk_summary = {"exit": rc, "axioms": (m.group(1).strip() if m else "?")}
        if rc != 0:
            proofs_ok = False
            pa_out = out
    translated = None
    if getattr(mod, "TRANSLATED_KERNELS", False):
        from harness import translate

        tk = list(mod.TRANSLATED_KERNELS)
        tok, tmsg, _ = translate.check(tk, tag=prop)
        translated = {"ok": tok, "message": tmsg, "kernels": tk}
        if not tok:
            proofs_ok = False
            pa_out = "translated kernels: " + tmsg
    broken_thm = None
    if not proofs_ok:
        m = re.search(r'File "([^"]+)", line (\d+)', pa_out if broken_files == [] else build_log)
        broken_thm = {"files_not_compiled": broken_files, "where": m.group(0) if m else None,
                      "log_tail": (build_log if broken_files else pa_out)[-2500:]}

    # 2 + 3. correspondence and oracle ------------------------------------------
    crashed = None
    try:
        mod.run(ctx)
    except Exception:
        crashed = traceback.format_exc()

    corr_bad = [s for s in ctx.suites if s["mismatches"] or s["errors"]]
    if (not proofs_ok or corr_bad) and not ctx.failures and crashed is None:
        # a proof or a correspondence broke and the oracle found nothing yet: search the implementation for a concrete
        # failing input with a larger budget and fresh seeds (the module's own search, then its whole run at 4x quick budget)
        try:
            if hasattr(mod, "search"):
                mod.search(ctx)
            if not ctx.failures and tier == "quick":
                ctx2 = Ctx(prop, tier, seed + 7919)
                ctx2.scale = 4
                mod.run(ctx2)
                ctx.failures.extend(ctx2.failures)
                ctx.evaluations += ctx2.evaluations + sum(s_["cases"] for s_ in ctx2.suites)
                ctx.notes.append(f"extended search after a broken proof/correspondence: {ctx2.evaluations} more oracle evaluations, {len(ctx2.failures)} failures")
        except Exception:
            crashed = traceback.format_exc()

    # 4. verdict ---------------------------------------------------------------
    known = load_findings(prop)
    lines = []
    exit_code = 0
    unknown_fail = []
    seen_known = {}
    for f in ctx.failures:
        hit = next((k for k in known if k["key"] == f["key"]), None)
        if hit:
            seen_known.setdefault(hit["key"], (hit, f))
        else:
            unknown_fail.append(f)
    for key, (hit, f) in seen_known.items():
        lines.append(f"KNOWN-FINDING: property={prop} {hit['key']}: {hit['what']}")
    violations = 0
    if unknown_fail:
        # one VIOLATION line per distinct key
        bykey = {}
        for f in unknown_fail:
            bykey.setdefault(f["key"], f)
        for key, f in bykey.items():
            p = write_replay(prop, "impl", {"property": prop, "kind": "impl-violation", "seed": seed,
                                            "key": key, "what": f["what"], "replay": f["replay"]})
            lines.append(f"VIOLATION property={prop} replay={p}")
            violations += 1
        exit_code = 1
    elif crashed is not None:
        p = write_replay(prop, "harness", {"property": prop, "kind": "harness-crash", "seed": seed, "traceback": crashed})
        lines.append(f"VIOLATION property={prop} replay={p} no-failing-input-found")
        violations += 1
        exit_code = 1
    elif not proofs_ok:
        p = write_replay(prop, "proof", {"property": prop, "kind": "proof", "seed": seed, "broken": broken_thm})
        lines.append(f"VIOLATION property={prop} replay={p} no-failing-input-found")
        violations += 1
        exit_code = 1
    elif corr_bad:
        p = write_replay(prop, "corr", {"property": prop, "kind": "correspondence", "seed": seed,
                                        "suites": [{"suite": s["suite"], "mismatches": s["mismatches"][:5],
                                                    "errors": s["errors"][:2]} for s in corr_bad]})
        lines.append(f"VIOLATION property={prop} replay={p} no-failing-input-found")
        violations += 1
        exit_code = 1

    # 5. evidence --------------------------------------------------------------
    n_suites = len(ctx.suites)
    n_tr = len(translated["kernels"]) if translated else 0
    obligations = len(thms) + n_suites + n_tr
    discharged = (len(thms) if proofs_ok else 0) + sum(1 for s in ctx.suites if not s["mismatches"] and not s["errors"]) + (n_tr if translated and translated["ok"] else 0)
    level = getattr(mod, "LEVEL", "proof")
    ev = {
        "property_id": prop,
        "tier": tier,
        "seed": seed,
        "level": level,
        "coverage": {
            "obligations": max(obligations, 1),
            "discharged": discharged,
            "checker_cmd": f"make -C /verif/coq (coqc 8.16.1, full .vo build) ; coqc Props/{prop}.v (Print Assumptions) ; coqc build/cases/{prop}_*.v (vm_compute correspondence)",
            "trusted_base": [
                "Coq 8.16.1 kernel + vm_compute (no native_compute)",
                "axioms reported by Print Assumptions under Props/%s.v: %s" % (prop, ", ".join(axioms) if axioms else "none (Closed under the global context)"),
                "hand-written Gallina model tied to /repo by the correspondence suites listed in 'suites'",
                "harness (generators, canonicalisation), CPython/NumPy/Zarr/networkx in /venv",
            ] + list(getattr(mod, "TRUSTED", [])),
            "theorems": thms,
            "coqchk": coqchk_summary,
            "translated_kernels": translated,
            "suites": [{"suite": s["suite"], "cases": s["cases"], "mismatches": len(s["mismatches"]),
                        "errors": len(s["errors"])} for s in ctx.suites],
            "evaluations": max(ctx.evaluations + sum(s["cases"] for s in ctx.suites), 1),
            "distinct_nontrivial": len(ctx.nontrivial),
            "rule": getattr(mod, "RULE", ""),
            "samples": ctx.samples or ["<none>"],
            "traces_validated_against_impl": ctx.traces_validated,
            "distribution": ctx.dist,
            "known_findings_reconfirmed": sorted(seen_known.keys()),
            "notes": ctx.notes,
        },
        "assumptions": list(getattr(mod, "ASSUMPTIONS", [])),
        "wall_s": round(time.time() - ctx.t0, 2),
        "violations": violations,
    }
    EVID.mkdir(parents=True, exist_ok=True)
    (EVID / f"{prop}.json").write_text(json.dumps(ev, indent=1, default=str) + "\n")
    for ln in lines:
        print(ln)
    print(f"[{prop} {tier}] proofs={'ok' if proofs_ok else 'BROKEN'} theorems={len(thms)} "
          f"suites={[(s['suite'], s['cases'], len(s['mismatches'])) for s in ctx.suites]} "
          f"oracle_evals={ctx.evaluations} failures={len(ctx.failures)} known={len(seen_known)} "
          f"wall={ev['wall_s']}s exit={exit_code}")
    if crashed:
        print(crashed)
    sys.exit(exit_code)
