"""Run a generated program through build / plan / execute, classifying any exception by phase and type,
checking every written block against its region (C12) and comparing results with the NumPy shadow (C01)."""
from __future__ import annotations

import traceback
import warnings

import numpy as np

from harness import gen_programs as G
from harness.adv_executor import AdvExecutor

EXPLICIT = (ValueError, TypeError, NotImplementedError, IndexError)


class BlockShapeChecker:
    """wrap_function hook for AdvExecutor: checks the shape of every block a task hands to Zarr."""

    def __init__(self):
        self.bad = []
        self.checked = 0

    def __call__(self, name, func):
        from cubed.primitive.blockwise import BlockwiseSpec, apply_blockwise, key_to_slices

        if func is not apply_blockwise:
            return func
        outer = self

        def wrapped(out_coords, *, config):
            if isinstance(config, BlockwiseSpec):
                import dataclasses
                import inspect

                f0 = config.function
                proxies = list(config.writes_map.values())

                def region_shapes():
                    shapes = []
                    for wp in proxies:
                        sl = key_to_slices(tuple(out_coords), wp.array, wp.chunks)
                        shapes.append(tuple(s.stop - s.start for s in sl))
                    return shapes

                def check(results):
                    res = results if isinstance(results, tuple) else (results,)
                    for r, shp in zip(res, region_shapes()):
                        outer.checked += 1
                        if isinstance(r, dict):
                            rs = {k: tuple(np.shape(v)) for k, v in r.items()}
                            if any(s != shp for s in rs.values()):
                                outer.bad.append((name, tuple(out_coords), rs, shp))
                        else:
                            if tuple(np.shape(r)) != shp:
                                outer.bad.append((name, tuple(out_coords), tuple(np.shape(r)), shp))

                if inspect.isgeneratorfunction(f0):
                    def g(*a, **k):
                        out = tuple(f0(*a, **k))
                        check(out)
                        yield from out
                    cfg = dataclasses.replace(config, function=g)
                else:
                    def f(*a, **k):
                        out = f0(*a, **k)
                        check(out)
                        return out
                    cfg = dataclasses.replace(config, function=f)
                return func(out_coords, config=cfg)
            return func(out_coords, config=config)

        return wrapped


def run_program(prog, executor="adversarial", optimize_graph=True, spec_kwargs=None, check_blocks=True):
    """Returns dict(phase, exc_type, exc, results, shadow, block_shape_errors, declared=[(shape,dtype,chunks)], env)."""
    import cubed

    out = dict(phase=None, exc_type=None, exc=None, tb=None, results=None, block_shape_errors=[], blocks_checked=0)
    try:
        shadow = G.shadow_eval(prog)
    except Exception as e:
        out.update(phase="numpy", exc_type=type(e).__name__, exc=str(e))
        return out
    out["shadow"] = [shadow[o] for o in prog["outs"]]
    skw = dict(allowed_mem="500MB")
    skw.update(spec_kwargs or {})
    with warnings.catch_warnings():
        warnings.simplefilter("ignore")
        try:
            spec = cubed.Spec(**skw)
            env = G.build(prog, spec)
        except Exception as e:
            out.update(phase="build", exc_type=type(e).__name__, exc=str(e)[:300], tb=traceback.format_exc()[-1200:], exc_obj_explicit=isinstance(e, EXPLICIT))
            return out
        outs = [env[o] for o in prog["outs"]]
        out["declared"] = [(tuple(a.shape), str(a.dtype), tuple(tuple(c) for c in a.chunks)) for a in outs]
        out["env"] = env
        try:
            plan = cubed.core.array.plan(*outs, optimize_graph=optimize_graph)
        except Exception as e:
            out.update(phase="plan", exc_type=type(e).__name__, exc=str(e)[:300], tb=traceback.format_exc()[-1200:], exc_obj_explicit=isinstance(e, EXPLICIT))
            return out
        if plan.exceeds_memory:
            out.update(phase="plan", exc_type="ValueError", exc="exceeds memory", exc_obj_explicit=True)
            return out
        checker = BlockShapeChecker()
        if executor == "adversarial":
            ex = AdvExecutor(wrap_function=checker if check_blocks else None)
        else:
            from cubed.runtime.create import create_executor

            ex = create_executor(executor)
        try:
            res = cubed.compute(*outs, executor=ex, optimize_graph=optimize_graph)
        except Exception as e:
            out.update(phase="execute", exc_type=type(e).__name__, exc=str(e)[:300], tb=traceback.format_exc()[-1500:], exc_obj_explicit=False)
            out["block_shape_errors"] = checker.bad
            return out
        out["results"] = [np.asarray(r) for r in res]
        out["block_shape_errors"] = checker.bad
        out["blocks_checked"] = checker.checked
        out["phase"] = "ok"
    return out
