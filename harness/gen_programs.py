"""Typed random generator of cubed array programs (SSA form, JSON-able) with a NumPy
shadow evaluated alongside.  Every random choice comes from the rng handed in.

A program is {"inputs": [{"var","shape","chunks","dtype","seed"}], "stmts": [{"var","op","args","kw"}], "outs": [vars]}.
"""
from __future__ import annotations

import math

import numpy as np

DTYPES = ["float64", "int64", "float32", "int32"]


# --------------------------------------------------------------------------- inputs
def gen_shape(rng, maxdim=3, maxlen=9, allow_zero=True):
    nd = rng.choice([0, 1, 1, 2, 2, 2, 3][: 4 + maxdim])
    nd = min(nd, maxdim)
    shape = []
    for _ in range(nd):
        r = rng.random()
        if r < 0.04 and allow_zero:
            shape.append(0)
        elif r < 0.14:
            shape.append(1)
        else:
            shape.append(rng.randint(2, maxlen))
    return tuple(shape)


def gen_chunks(rng, shape):
    ch = []
    for n in shape:
        if n <= 1:
            ch.append(max(n, 1))
            continue
        r = rng.random()
        if r < 0.15:
            ch.append(1)
        elif r < 0.3:
            ch.append(n)
        else:
            ch.append(rng.randint(1, n))
    return tuple(ch)


def input_data(shape, dtype, seed):
    n = int(np.prod(shape)) if shape else 1
    r = np.random.RandomState(seed)
    vals = r.randint(-9, 10, size=n).astype(dtype)
    return vals.reshape(shape)


# --------------------------------------------------------------------------- ops
class Decline(Exception):
    pass


def _axis(rng, nd):
    return rng.randrange(nd) if rng.random() < 0.7 else rng.randrange(nd) - nd


def op_table():
    """name -> (arity, gen_kw(rng, shapes) -> kw or None, cubed_fn(xp, cubed, args, kw), numpy_fn(args, kw))"""
    T = {}

    def unary(name, cf, nf):
        T[name] = (1, lambda rng, shapes: {}, cf, nf)

    unary("negative", lambda xp, c, a, kw: xp.negative(a[0]), lambda a, kw: np.negative(a[0]))
    unary("abs", lambda xp, c, a, kw: xp.abs(a[0]), lambda a, kw: np.abs(a[0]))
    unary("square", lambda xp, c, a, kw: xp.square(a[0]), lambda a, kw: np.square(a[0]))
    unary("add_scalar", lambda xp, c, a, kw: a[0] + 3, lambda a, kw: a[0] + 3)
    unary("mul_scalar", lambda xp, c, a, kw: 2 * a[0], lambda a, kw: 2 * a[0])

    def bgen(rng, shapes):
        try:
            np.broadcast_shapes(*shapes)
        except ValueError:
            return None
        return {}

    def binary(name, cf, nf):
        T[name] = (2, bgen, cf, nf)

    binary("add", lambda xp, c, a, kw: xp.add(a[0], a[1]), lambda a, kw: np.add(a[0], a[1]))
    binary("subtract", lambda xp, c, a, kw: xp.subtract(a[0], a[1]), lambda a, kw: np.subtract(a[0], a[1]))
    binary("multiply", lambda xp, c, a, kw: xp.multiply(a[0], a[1]), lambda a, kw: np.multiply(a[0], a[1]))
    binary("maximum", lambda xp, c, a, kw: xp.maximum(a[0], a[1]), lambda a, kw: np.maximum(a[0], a[1]))
    binary("where_gt", lambda xp, c, a, kw: xp.where(a[0] > a[1], a[0], a[1]), lambda a, kw: np.where(a[0] > a[1], a[0], a[1]))

    # reductions
    def rgen(rng, shapes):
        nd = len(shapes[0])
        kw = {"keepdims": rng.random() < 0.3}
        r = rng.random()
        if nd == 0 or r < 0.3:
            kw["axis"] = None
        elif r < 0.8:
            kw["axis"] = _axis(rng, nd)
        else:
            k = rng.randint(1, nd)
            kw["axis"] = tuple(sorted(rng.sample(range(nd), k)))
        if rng.random() < 0.4:
            kw["split_every"] = rng.choice([2, 3, 4])
        return kw

    def red(name, empty_ok=True):
        def cf(xp, c, a, kw):
            k = dict(kw)
            return getattr(xp, name)(a[0], **k)

        def nf(a, kw):
            k = {x: y for x, y in kw.items() if x != "split_every"}
            if not empty_ok and a[0].size == 0:
                raise Decline()
            r = getattr(np, name)(a[0], **k)
            return np.asarray(r)

        def g(rng, shapes):
            if not empty_ok and 0 in shapes[0]:
                return None
            return rgen(rng, shapes)

        T["r_" + name] = (1, g, cf, nf)

    red("sum")
    red("prod")
    red("max", empty_ok=False)
    red("min", empty_ok=False)
    red("mean", empty_ok=False)

    def arggen(rng, shapes):
        nd = len(shapes[0])
        if 0 in shapes[0]:
            return None
        kw = {"keepdims": rng.random() < 0.3, "axis": None if (nd == 0 or rng.random() < 0.3) else _axis(rng, nd)}
        return kw

    T["argmax"] = (1, arggen, lambda xp, c, a, kw: xp.argmax(a[0], **kw), lambda a, kw: np.asarray(np.argmax(a[0], **kw)))

    def cumgen(rng, shapes):
        nd = len(shapes[0])
        if nd == 0:
            return None
        return {"axis": _axis(rng, nd)}

    T["cumulative_sum"] = (1, cumgen, lambda xp, c, a, kw: xp.cumulative_sum(a[0], **kw),
                           lambda a, kw: np.cumulative_sum(a[0], **kw) if hasattr(np, "cumulative_sum") else np.cumsum(a[0], **kw))

    # manipulation
    def concat_gen(rng, shapes):
        nd = len(shapes[0])
        if nd == 0 or any(len(s) != nd for s in shapes):
            return None
        ax = rng.randrange(nd)
        for s in shapes[1:]:
            if any(s[i] != shapes[0][i] for i in range(nd) if i != ax):
                return None
        return {"axis": ax}

    T["concat"] = (2, concat_gen, lambda xp, c, a, kw: xp.concat(list(a), **kw), lambda a, kw: np.concatenate(list(a), **kw))

    def stack_gen(rng, shapes):
        if any(s != shapes[0] for s in shapes):
            return None
        return {"axis": rng.randint(0, len(shapes[0]))}

    T["stack"] = (2, stack_gen, lambda xp, c, a, kw: xp.stack(list(a), **kw), lambda a, kw: np.stack(list(a), **kw))

    def rep_gen(rng, shapes):
        nd = len(shapes[0])
        if nd == 0:
            return None
        return {"repeats": rng.randint(1, 3), "axis": rng.randrange(nd)}

    T["repeat"] = (1, rep_gen, lambda xp, c, a, kw: xp.repeat(a[0], kw["repeats"], axis=kw["axis"]),
                   lambda a, kw: np.repeat(a[0], kw["repeats"], axis=kw["axis"]))

    def roll_gen(rng, shapes):
        nd = len(shapes[0])
        if nd == 0 or rng.random() < 0.2:
            return {"shift": rng.randint(-4, 4), "axis": None}
        return {"shift": rng.randint(-4, 4), "axis": rng.randrange(nd)}

    T["roll"] = (1, roll_gen, lambda xp, c, a, kw: xp.roll(a[0], kw["shift"], axis=kw["axis"]),
                 lambda a, kw: np.roll(a[0], kw["shift"], axis=kw["axis"]))

    def flip_gen(rng, shapes):
        nd = len(shapes[0])
        return {"axis": None if (nd == 0 or rng.random() < 0.3) else rng.randrange(nd)}

    T["flip"] = (1, flip_gen, lambda xp, c, a, kw: xp.flip(a[0], **kw), lambda a, kw: np.flip(a[0], **kw))

    def perm_gen(rng, shapes):
        nd = len(shapes[0])
        p = list(range(nd))
        rng.shuffle(p)
        return {"axes": tuple(p)}

    T["permute_dims"] = (1, perm_gen, lambda xp, c, a, kw: xp.permute_dims(a[0], kw["axes"]), lambda a, kw: np.transpose(a[0], kw["axes"]))

    def exp_gen(rng, shapes):
        return {"axis": rng.randint(0, len(shapes[0]))}

    T["expand_dims"] = (1, exp_gen, lambda xp, c, a, kw: xp.expand_dims(a[0], axis=kw["axis"]), lambda a, kw: np.expand_dims(a[0], kw["axis"]))

    def sq_gen(rng, shapes):
        ones = [i for i, n in enumerate(shapes[0]) if n == 1]
        if not ones:
            return None
        return {"axis": rng.choice(ones)}

    T["squeeze"] = (1, sq_gen, lambda xp, c, a, kw: xp.squeeze(a[0], axis=kw["axis"]), lambda a, kw: np.squeeze(a[0], axis=kw["axis"]))

    def bc_gen(rng, shapes):
        s = shapes[0]
        new = tuple([rng.randint(1, 3)] * (rng.random() < 0.5)) + tuple(rng.randint(2, 4) if n == 1 and rng.random() < 0.7 else n for n in s)
        return {"shape": new}

    T["broadcast_to"] = (1, bc_gen, lambda xp, c, a, kw: xp.broadcast_to(a[0], kw["shape"]), lambda a, kw: np.broadcast_to(a[0], kw["shape"]))

    def reshape_gen(rng, shapes):
        s = shapes[0]
        n = int(np.prod(s)) if s else 1
        opts = [(n,), s[::-1]] if s else [(1,)]
        if len(s) >= 2:
            opts.append((s[0] * s[1],) + s[2:])
            opts.append(s[:-2] + (s[-2] * s[-1],))
        if len(s) >= 1 and s[0] > 1:
            for d in range(2, s[0]):
                if s[0] % d == 0:
                    opts.append((d, s[0] // d) + s[1:])
                    break
        return {"shape": tuple(int(x) for x in rng.choice(opts))}

    T["reshape"] = (1, reshape_gen, lambda xp, c, a, kw: xp.reshape(a[0], kw["shape"]), lambda a, kw: np.reshape(a[0], kw["shape"]))

    def idx_gen(rng, shapes):
        s = shapes[0]
        if len(s) == 0:
            return None
        idx = []
        used_array = False
        for n in s:
            r = rng.random()
            if n == 0 or r < 0.15:
                idx.append(["s", None, None, None])
            elif r < 0.35:
                a = rng.randint(0, n - 1)
                b = rng.randint(a, n)
                idx.append(["s", a, b, None])
            elif r < 0.45:
                st = rng.choice([2, 3])
                idx.append(["s", rng.choice([None, 0, 1]), None, st])
            elif r < 0.65:
                st = rng.choice([-1, -1, -2, -3])
                if rng.random() < 0.5:
                    idx.append(["s", None, None, st])
                else:
                    hi = rng.randint(0, n - 1)
                    idx.append(["s", hi, rng.choice([None, rng.randint(0, hi) - 1 if hi > 0 else None]), st])
                    if idx[-1][2] is not None and idx[-1][2] < 0:
                        idx[-1][2] = None
            elif r < 0.85:
                idx.append(["i", rng.randint(-n, n - 1)])
            elif not used_array:
                used_array = True
                k = rng.randint(1, n)
                idx.append(["a", sorted(rng.sample(range(n), k)) if rng.random() < 0.6 else [rng.randrange(n) for _ in range(k)]])
            else:
                idx.append(["s", None, None, None])
        if rng.random() < 0.1:
            idx.insert(rng.randint(0, len(idx)), ["n"])
        return {"idx": idx}

    def mkidx(idx):
        out = []
        for e in idx:
            if e[0] == "s":
                out.append(slice(e[1], e[2], e[3]))
            elif e[0] == "i":
                out.append(e[1])
            elif e[0] == "a":
                out.append(list(e[1]))
            else:
                out.append(None)
        return tuple(out)

    T["index"] = (1, idx_gen, lambda xp, c, a, kw: a[0][mkidx(kw["idx"])], lambda a, kw: a[0][mkidx(kw["idx"])])

    def mm_gen(rng, shapes):
        a, b = shapes
        if len(a) < 1 or len(b) < 1 or len(a) > 2 or len(b) > 2:
            return None
        if a[-1] != (b[-2] if len(b) == 2 else b[-1]):
            return None
        if len(a) == 1 and len(b) == 1:
            return None
        if len(a) == 1 or len(b) == 1:
            return None
        return {}

    T["matmul"] = (2, mm_gen, lambda xp, c, a, kw: xp.matmul(a[0], a[1]), lambda a, kw: np.matmul(a[0], a[1]))

    def outer_gen(rng, shapes):
        if len(shapes[0]) != 1 or len(shapes[1]) != 1:
            return None
        return {}

    T["outer"] = (2, outer_gen, lambda xp, c, a, kw: xp.linalg.outer(a[0], a[1]), lambda a, kw: np.outer(a[0], a[1]))

    def td_gen(rng, shapes):
        s0, s1 = shapes
        if not s0 or not s1:
            return None
        for _ in range(10):
            k = rng.randint(1, min(len(s0), len(s1), 2))
            ax0 = rng.sample(range(len(s0)), k)          # in any order, not necessarily ascending
            ax1, free = [], list(range(len(s1)))
            rng.shuffle(free)
            for a in ax0:
                m = next((j for j in free if s1[j] == s0[a]), None)
                if m is None:
                    break
                free.remove(m)
                ax1.append(m)
            if len(ax1) == k:
                neg = rng.random() < 0.3
                return {"axes": [[a - len(s0) if neg else a for a in ax0], ax1]}
        return None

    T["tensordot"] = (2, td_gen, lambda xp, c, a, kw: xp.tensordot(a[0], a[1], axes=(tuple(kw["axes"][0]), tuple(kw["axes"][1]))),
                      lambda a, kw: np.tensordot(a[0], a[1], axes=(tuple(kw["axes"][0]), tuple(kw["axes"][1]))))

    def unstack_gen(rng, shapes):
        s = shapes[0]
        cands = [i for i, n in enumerate(s) if 2 <= n <= 4]
        if not cands:
            return None
        ax = rng.choice(cands)
        return {"axis": ax, "pick": rng.randrange(s[ax])}

    # a multi-output operation (one op producing shape[axis] arrays); one of its outputs is used
    T["unstack_pick"] = (1, unstack_gen, lambda xp, c, a, kw: xp.unstack(a[0], axis=kw["axis"])[kw["pick"]],
                         lambda a, kw: np.moveaxis(a[0], kw["axis"], 0)[kw["pick"]])

    def rechunk_gen(rng, shapes):
        s = shapes[0]
        if len(s) == 0:
            return None
        return {"chunks": tuple(max(1, rng.randint(1, max(n, 1))) for n in s)}

    T["rechunk"] = (1, rechunk_gen, lambda xp, c, a, kw: a[0].rechunk(kw["chunks"]), lambda a, kw: a[0])

    def astype_gen(rng, shapes):
        return {"dtype": rng.choice(["float64", "int64", "float32"])}

    T["astype"] = (1, astype_gen, lambda xp, c, a, kw: xp.astype(a[0], getattr(xp, kw["dtype"])), lambda a, kw: a[0].astype(kw["dtype"]))

    def mb_gen(rng, shapes):
        return {}

    T["map_blocks_double"] = (1, mb_gen, lambda xp, c, a, kw: c.map_blocks(_double, a[0], dtype=a[0].dtype), lambda a, kw: a[0] * 2)

    def tri_gen(rng, shapes):
        if len(shapes[0]) < 2:
            return None
        return {"k": rng.randint(-1, 1)}

    T["tril"] = (1, tri_gen, lambda xp, c, a, kw: xp.tril(a[0], k=kw["k"]), lambda a, kw: np.tril(a[0], k=kw["k"]))

    def pad_gen(rng, shapes):
        s = shapes[0]
        if len(s) == 0:
            return None
        return {"pad_width": tuple((rng.randint(0, 2), rng.randint(0, 2)) for _ in s)}

    T["pad"] = (1, pad_gen, lambda xp, c, a, kw: c.pad(a[0], kw["pad_width"], mode="constant"),
                lambda a, kw: np.pad(a[0], kw["pad_width"], mode="constant"))

    def gb_gen(rng, shapes):
        s = shapes[0]
        cands = [i for i, n in enumerate(s) if n >= 1]
        if not cands:
            return None
        ax = rng.choice(cands)
        n = s[ax]
        G = rng.randint(1, min(n, 6))
        # sorted labels 0..G-1, every group non-empty (searchsorted-based chunking needs sorted labels)
        cuts = sorted(rng.sample(range(1, n), G - 1)) if G > 1 else []
        by, g, prev = [], 0, 0
        for cpos in cuts + [n]:
            by += [g] * (cpos - prev)
            prev, g = cpos, g + 1
        return {"axis": ax, "by": by, "num_groups": G}

    def gb_cf(xp, c, a, kw):
        from cubed.core.groupby import groupby_blockwise

        return groupby_blockwise(a[0], np.asarray(kw["by"]), func=_groupby_sum, axis=kw["axis"], dtype=a[0].dtype, num_groups=kw["num_groups"])

    def gb_nf(a, kw):
        x = np.moveaxis(a[0], kw["axis"], 0)
        out = np.zeros((kw["num_groups"],) + x.shape[1:], dtype=a[0].dtype)
        np.add.at(out, np.asarray(kw["by"], dtype=int), x)
        return np.moveaxis(out, 0, kw["axis"])

    T["groupby_blockwise_sum"] = (1, gb_gen, gb_cf, gb_nf)

    return T


def _double(x):
    return x * 2


def _groupby_sum(arr, by, axis, start_group, num_groups):
    """block function of groupby_blockwise: sums of the groups start_group .. start_group+num_groups-1 of this block"""
    x = np.moveaxis(np.asarray(arr), axis, 0)
    out = np.zeros((num_groups,) + x.shape[1:], dtype=x.dtype)
    np.add.at(out, np.asarray(by, dtype=int) - start_group, x)
    return np.moveaxis(out, 0, axis)


OPS = None


def ops():
    global OPS
    if OPS is None:
        OPS = op_table()
    return OPS


FAMILIES = {
    "elementwise": ["negative", "abs", "square", "add_scalar", "mul_scalar", "add", "subtract", "multiply", "maximum", "where_gt", "astype", "map_blocks_double"],
    "reduction": ["r_sum", "r_prod", "r_max", "r_min", "r_mean", "argmax", "groupby_blockwise_sum"],
    "scan": ["cumulative_sum"],
    "manipulation": ["concat", "stack", "unstack_pick", "repeat", "roll", "flip", "permute_dims", "expand_dims", "squeeze", "broadcast_to", "reshape", "pad", "tril"],
    "indexing": ["index"],
    "linalg": ["matmul", "outer", "tensordot", "tensordot"],
    "rechunk": ["rechunk"],
}


def gen_program(rng, nstmts=None, families=None, maxdim=3, maxlen=9, allow_zero=True, ninputs=None):
    T = ops()
    fams = families or list(FAMILIES)
    names = [n for f in fams for n in FAMILIES[f]]
    ninputs = ninputs or rng.choice([1, 1, 2, 2, 3])
    inputs = []
    shapes = {}
    base = gen_shape(rng, maxdim, maxlen, allow_zero)
    for i in range(ninputs):
        # related shapes so that binary ops are often applicable
        r = rng.random()
        if i == 0 or r < 0.25:
            shape = base if i == 0 else gen_shape(rng, maxdim, maxlen, allow_zero)
        elif r < 0.75:
            shape = base
        else:
            shape = tuple(1 if rng.random() < 0.4 else n for n in base)[rng.randint(0, len(base)):] if base else ()
        var = f"x{i}"
        inputs.append({"var": var, "shape": list(shape), "chunks": list(gen_chunks(rng, shape)),
                       "dtype": rng.choice(DTYPES[:2]) if rng.random() < 0.8 else rng.choice(DTYPES),
                       "seed": rng.randrange(10**6)})
        shapes[var] = tuple(shape)
    nst = nstmts or rng.randint(1, 6)
    stmts = []
    shadow = {i["var"]: input_data(tuple(i["shape"]), i["dtype"], i["seed"]) for i in inputs}
    tries = 0
    while len(stmts) < nst and tries < 60:
        tries += 1
        name = rng.choice(names)
        arity, g, cf, nf = T[name]
        vars_ = list(shapes)
        # prefer recent variables
        args = [vars_[-1 - min(int(rng.expovariate(0.7)), len(vars_) - 1)] for _ in range(arity)]
        kw = g(rng, [shapes[a] for a in args])
        if kw is None:
            continue
        try:
            with np.errstate(all="ignore"):
                val = nf([shadow[a] for a in args], kw)
        except Decline:
            continue
        except Exception:
            continue
        val = np.asarray(val)
        if val.size > 4000 or val.ndim > 4:
            continue
        if val.dtype.kind in "fc" and not np.all(np.isfinite(val)):
            continue
        if val.dtype.kind in "iuf" and val.size and np.max(np.abs(val.astype("float64"))) > 1e12:
            continue
        var = f"v{len(stmts)}"
        stmts.append({"var": var, "op": name, "args": args, "kw": kw})
        shapes[var] = tuple(val.shape)
        shadow[var] = val
    if not stmts:
        stmts.append({"var": "v0", "op": "negative", "args": ["x0"], "kw": {}})
        shadow["v0"] = -shadow["x0"]
    nouts = 1 if rng.random() < 0.7 else 2
    cand = [s["var"] for s in stmts]
    outs = [cand[-1]] + ([rng.choice(cand)] if nouts == 2 and len(cand) > 1 else [])
    outs = list(dict.fromkeys(outs))
    return {"inputs": inputs, "stmts": stmts, "outs": outs}


def gen_pattern_program(rng):
    """Structured programs that hit corners the uniform generator rarely reaches: a multi-output op feeding unary chains,
    diamonds with repeated arguments, a requested intermediate that is another requested array's only input."""
    T = ops()
    kind = rng.choice(["multi_output_chain", "diamond", "requested_intermediate", "groupby_consumer"])
    n0, n1 = rng.randint(2, 4), rng.randint(2, 6)
    if kind == "groupby_consumer":
        n0 = rng.randint(3, 9)
    shape = (n0, n1)
    inp = {"var": "x0", "shape": list(shape), "chunks": list(gen_chunks(rng, shape)), "dtype": "float64", "seed": rng.randrange(10**6)}
    un = lambda: rng.choice(["negative", "abs", "square", "add_scalar", "mul_scalar"])
    stmts = []
    def add(op, args, kw=None):
        var = f"v{len(stmts)}"
        stmts.append({"var": var, "op": op, "args": args, "kw": kw or {}})
        return var
    if kind == "multi_output_chain":
        a = add(un(), ["x0"]) if rng.random() < 0.5 else "x0"
        u = add("unstack_pick", [a], {"axis": 0, "pick": rng.randrange(n0)})
        b = add(un(), [u])
        c = add(un(), [b]) if rng.random() < 0.5 else b
        outs = [c]
        if rng.random() < 0.4:
            w = add("unstack_pick", [a], {"axis": 0, "pick": rng.randrange(n0)})
            outs.append(add(un(), [w]))
    elif kind == "groupby_consumer":
        # groupby_blockwise whose group count is (often) not a multiple of the groups per output chunk, consumed by an
        # elementwise op / a reduction over the group axis that the optimizer fuses with it
        a = add(un(), ["x0"]) if rng.random() < 0.4 else "x0"
        kw = T["groupby_blockwise_sum"][1](rng, [shape])
        kw["axis"] = 0
        G_ = rng.randint(2, min(n0, 6))
        cuts = sorted(rng.sample(range(1, n0), G_ - 1))
        by, g, prev = [], 0, 0
        for cpos in cuts + [n0]:
            by += [g] * (cpos - prev)
            prev, g = cpos, g + 1
        kw.update({"by": by, "num_groups": G_})
        gvar = add("groupby_blockwise_sum", [a], kw)
        r = rng.random()
        if r < 0.4:
            outs = [add("r_sum", [gvar], {"axis": 0, "keepdims": False, "split_every": 2})]
        elif r < 0.7:
            outs = [add(un(), [gvar])]
        else:
            outs = [gvar]
    elif kind == "diamond":
        a = add(un(), ["x0"])
        b = add(un(), [a])
        c = add(un(), [a])
        d = add(rng.choice(["add", "multiply", "subtract"]), [b, c] if rng.random() < 0.7 else [b, b])
        outs = [add(un(), [d])]
    else:
        a = add(un(), ["x0"])
        c = add(un(), [a])
        d = add(un(), [c])
        e = add(un(), [d]) if rng.random() < 0.5 else d
        outs = [e, c] if rng.random() < 0.7 else [e, d, c]
    return {"inputs": [inp], "stmts": stmts, "outs": list(dict.fromkeys(outs))}


def shadow_eval(prog):
    T = ops()
    env = {i["var"]: input_data(tuple(i["shape"]), i["dtype"], i["seed"]) for i in prog["inputs"]}
    for s in prog["stmts"]:
        with np.errstate(all="ignore"):
            env[s["var"]] = np.asarray(T[s["op"]][3]([env[a] for a in s["args"]], s["kw"]))
    return env


def build(prog, spec=None, input_kind="asarray"):
    """Builds the cubed arrays; returns dict var -> cubed array. Exceptions propagate (build-time refusal)."""
    import cubed
    import cubed.array_api as xp

    T = ops()
    env = {}
    for i in prog["inputs"]:
        data = input_data(tuple(i["shape"]), i["dtype"], i["seed"])
        env[i["var"]] = xp.asarray(data, chunks=tuple(i["chunks"]), spec=spec)
    for s in prog["stmts"]:
        try:
            env[s["var"]] = T[s["op"]][2](xp, cubed, [env[a] for a in s["args"]], s["kw"])
        except Exception as e:
            e._verif_stmt = s
            raise
    return env


def values_equal(a, b):
    a = np.asarray(a)
    b = np.asarray(b)
    if a.shape != b.shape:
        return False
    if a.dtype.kind in "fc" or b.dtype.kind in "fc":
        return bool(np.allclose(a, b, rtol=1e-6, atol=1e-9, equal_nan=True))
    return bool(np.array_equal(a, b))
