"""Drives the REAL cubed.runtime.asyncio.async_map_unordered under a scripted
discrete-event simulation: asyncio.wait, time.monotonic and (optionally)
should_launch_backup are replaced, through module attributes of
cubed.runtime.asyncio, by scripted versions that record every choice the code
observes (which futures were reported finished and in which order, in which
order the backup loop visited pending tasks and what the policy answered).
The recorded script is what the Gallina model is run on."""
from __future__ import annotations

import asyncio
import copy
import types

import cubed.runtime.asyncio as cra
import cubed.runtime.backup as crb


class OrderedSet(set):
    """A set whose iteration order is scripted (by a key function)."""

    order_key = None

    def __iter__(self):
        items = list(set.__iter__(self))
        items.sort(key=self.order_key)
        return iter(items)

    def __copy__(self):
        c = OrderedSet(set.__iter__(self))
        c.order_key = self.order_key
        return c


class FinishedList(list):
    pass


class ScriptEnd(Exception):
    pass


class Sim:
    """plan: dict with
         n            number of inputs (inputs are 0..n-1)
         batch        None or int
         use_backups  bool
         policy       'real' or 'scripted'
         fut          callable(fid, input, is_backup, rng) -> (duration float, ok bool)
         answer       callable(fid, rng) -> bool           (scripted policy)
         max_wakes    int
    """

    def __init__(self, plan, rng):
        self.plan = plan
        self.rng = rng
        self.now = 0.0
        self.futs = {}       # fid -> future
        self.fid_of = {}     # id(future) -> fid
        self.meta = {}       # fid -> dict(input, backup, finish, ok)
        self.wakes = []      # recorded script
        self.cur_exam = None
        self.subs = []       # (fid, input, is_backup)
        self.yields = []
        self.status = None
        self.err = None

    # --- scripted pieces ---------------------------------------------------
    def _create(self, is_backup):
        def create_futures_func(inputs, **kwargs):
            out = []
            loop = asyncio.get_running_loop()
            for i in inputs:
                f = loop.create_future()
                fid = len(self.futs)
                self.futs[fid] = f
                self.fid_of[id(f)] = fid
                dur, ok = self.plan["fut"](fid, i, is_backup, self.rng)
                self.meta[fid] = dict(input=i, backup=is_backup, finish=self.now + dur, ok=ok)
                self.subs.append((fid, i, is_backup))
                out.append((i, f))
            return out

        return create_futures_func

    async def _wait(self, pending, return_when=None, timeout=None):
        if len(self.wakes) >= self.plan.get("max_wakes", 400):
            raise ScriptEnd()
        if self.cur_exam is not None:
            self.wakes[-1]["exam"] = self.cur_exam
        pend = [self.fid_of[id(f)] for f in set.__iter__(pending)] if isinstance(pending, set) else [self.fid_of[id(f)] for f in pending]
        live = [p for p in pend if not self.futs[p].done()]
        fin = []
        if live:
            tmin = min(self.meta[p]["finish"] for p in live)
            if tmin <= self.now + (timeout or 2):
                window = self.plan.get("window", 0.0)
                self.now = max(self.now, tmin)
                fin = [p for p in live if self.meta[p]["finish"] <= tmin + window]
                self.now = max([self.now] + [self.meta[p]["finish"] for p in fin])
            else:
                self.now += timeout or 2
        else:
            self.now += timeout or 2
        # futures already done (cancelled ones cannot be in pending; defensive)
        fin += [p for p in pend if self.futs[p].done() and p not in fin]
        self.rng.shuffle(fin)
        for p in fin:
            f = self.futs[p]
            if not f.done():
                if self.meta[p]["ok"]:
                    f.set_result((str(p), {}))
                else:
                    f.set_exception(RuntimeError(f"fail-{p}"))
        self.wakes.append({"fin": [(p, self.meta[p]["ok"]) for p in fin], "exam": []})
        self.cur_exam = []
        finished = FinishedList(self.futs[p] for p in fin)
        rest = OrderedSet(f for f in set.__iter__(pending) if self.fid_of[id(f)] not in fin) if isinstance(pending, set) else OrderedSet(f for f in pending if self.fid_of[id(f)] not in fin)
        perm = {id(f): self.rng.random() for f in self.futs.values()}
        fid_of = self.fid_of
        rest.order_key = lambda f: perm.get(id(f), 1.0 + fid_of.get(id(f), 0))
        return finished, rest

    def _policy(self, task, now, start_times, end_times, **kw):
        fid = self.fid_of[id(task)]
        if self.plan["policy"] == "real":
            try:
                ans = self._real_policy(task, now, start_times, end_times, **kw)
            except KeyError:
                self.cur_exam.append((fid, False))
                raise
        else:
            ans = bool(self.plan["answer"](fid, self.rng))
        self.cur_exam.append((fid, ans))
        return ans

    # --- run -----------------------------------------------------------------
    def run(self):
        sim = self
        real_asyncio, real_time, real_pol = cra.asyncio, cra.time, cra.should_launch_backup
        self._real_policy = crb.should_launch_backup
        shim_asyncio = types.SimpleNamespace(
            wait=self._wait, FIRST_COMPLETED=asyncio.FIRST_COMPLETED, Future=asyncio.Future
        )
        shim_time = types.SimpleNamespace(monotonic=lambda: sim.now, time=lambda: sim.now)

        async def consume():
            agen = cra.async_map_unordered(
                self._create(False),
                list(range(self.plan["n"])),
                use_backups=self.plan["use_backups"],
                create_backup_futures_func=self._create(True),
                batch_size=self.plan["batch"],
                return_stats=True,
                name="op",
            )
            try:
                async for result, stats in agen:
                    self.yields.append(result)
                self.status = "done"
            except ScriptEnd:
                self.status = "running"
            except RuntimeError as e:
                if str(e).startswith("fail-"):
                    self.status = "raised"
                    self.err = int(str(e).split("-")[1])
                else:
                    self.status = "crashed"
                    self.err = repr(e)
            except BaseException as e:  # KeyError, CancelledError, ...
                self.status = "crashed"
                self.err = repr(e)

        cra.asyncio, cra.time, cra.should_launch_backup = shim_asyncio, shim_time, self._policy
        import io, contextlib
        try:
            with contextlib.redirect_stdout(io.StringIO()):
                asyncio.run(consume())
        finally:
            cra.asyncio, cra.time, cra.should_launch_backup = real_asyncio, real_time, real_pol
        if self.cur_exam is not None and self.wakes:
            self.wakes[-1]["exam"] = self.cur_exam
        for f in self.futs.values():  # silence "exception was never retrieved"
            if f.done() and not f.cancelled():
                f.exception()
        return self
