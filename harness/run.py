import sys
from harness.framework import main

if __name__ == "__main__":
    main(sys.argv[1:])
