"""A sequential adversarial executor: runs the tasks of each op one by one in an order it
chooses, may duplicate tasks, ship them through cloudpickle, crash after a number of
tasks, and tells the tracing store which task is running."""
from __future__ import annotations

from cubed.runtime.pipeline import visit_nodes
from cubed.runtime.types import DagExecutor, TaskEndEvent
from cubed.runtime.utils import handle_operation_end_callbacks, handle_operation_start_callbacks

from harness.tracing_store import CURRENT, CrashNow


class AdvExecutor(DagExecutor):
    """options:
         order(name, tasks, rng) -> list of task inputs to run (permutation, with duplicates)
         crash_after_tasks: int or None  (raise CrashNow after that many task executions)
         pickle_ship: bool               (run each task from its cloudpickle round trip)
         on_task(name, m, phase)         (hook: 'start'/'end')
         late_dups: float                (probability of re-running a task of an already completed op later)
    """

    def __init__(self, rng=None, order=None, crash_after_tasks=None, pickle_ship=False, on_task=None,
                 late_dups=0.0, wrap_function=None, **kwargs):
        super().__init__(**kwargs)
        self.rng = rng
        self.order = order
        self.crash_after_tasks = crash_after_tasks
        self.pickle_ship = pickle_ship
        self.on_task = on_task
        self.late_dups = late_dups
        self.wrap_function = wrap_function
        self.executed = []         # (op name, tuple(input) or repr)
        self.completed_ops = []    # (name, pipeline, tasks)

    @property
    def name(self):
        return "adversarial"

    def _run_one(self, name, pipeline, m, callbacks, notify=True):
        if self.crash_after_tasks is not None and len(self.executed) >= self.crash_after_tasks:
            raise CrashNow(f"crash after {len(self.executed)} tasks")
        key = tuple(m) if isinstance(m, (list, tuple)) else repr(m)
        CURRENT.task = (name, key)
        if self.on_task:
            self.on_task(name, m, "start")
        try:
            func, config = pipeline.function, pipeline.config
            if self.wrap_function is not None:
                func = self.wrap_function(name, func)
            if self.pickle_ship:
                import cloudpickle

                func, m2, config = cloudpickle.loads(cloudpickle.dumps((func, m, config)))
                result = func(m2, config=config)
            else:
                result = func(m, config=config)
        finally:
            CURRENT.task = None
        self.executed.append((name, key))
        if self.on_task:
            self.on_task(name, m, "end")
        if notify and callbacks is not None:
            event = TaskEndEvent(name=name, result=result)
            for cb in callbacks:
                cb.on_task_end(event)

    def execute_dag(self, dag, callbacks=None, spec=None, compute_id=None, **kwargs):
        for name, node in visit_nodes(dag):
            handle_operation_start_callbacks(callbacks, name)
            pipeline = node["pipeline"]
            tasks = list(pipeline.mappable)
            seq = self.order(name, tasks, self.rng) if self.order else tasks
            seen = set()
            for m in seq:
                key = tuple(m) if isinstance(m, (list, tuple)) else repr(m)
                first = key not in seen
                seen.add(key)
                self._run_one(name, pipeline, m, callbacks, notify=first)
                # occasionally re-run a task of an op that completed earlier (late duplicate)
                if self.late_dups and self.completed_ops and self.rng.random() < self.late_dups:
                    n2, p2, t2 = self.rng.choice(self.completed_ops)
                    if t2:     # create-arrays tasks included: a backup of one may run after the arrays were filled
                        self._run_one(n2, p2, self.rng.choice(t2), callbacks, notify=False)
            self.completed_ops.append((name, pipeline, tasks))
            handle_operation_end_callbacks(callbacks, name)
