"""C20 - serialized arrays compute the same and are never confused with other arrays."""
from __future__ import annotations

import json
import os
import subprocess
import sys
import tempfile
import warnings

import numpy as np

from harness.framework import cnatlist

LEVEL = "proof"
RULE = ("expressions built (a) in this process and (b) in a fresh interpreter with its own name counters, serialized with cloudpickle, "
        "deserialized here after the receiving process has created 0..k arrays, computed alone and combined with locally built "
        "arrays (as either operand, with shared or disjoint ancestry), compared with NumPy. K: networkx.compose_all of the real "
        "plan DAGs (arrays_to_dag) vs Model.Naming.merge on the abstraction of both plans, and the model's compatible predicate "
        "vs 'the two plans bind a shared name to different nodes'. non-trivial = combination whose plans share a name; "
        "distinct = expression x receiver state x combination")
ASSUMPTIONS = ["cloudpickle round-trips the objects it accepts", "a name collision is detected as 'same node name, different defining operation'"]
TRUSTED = []

CHILD = r'''
import sys, warnings
warnings.simplefilter("ignore")
import numpy as np, cloudpickle, cubed, cubed.array_api as xp
k, kind, workdir = int(sys.argv[1]), sys.argv[2], sys.argv[3]
spec = cubed.Spec(work_dir=workdir, allowed_mem="200MB")
for _ in range(k):
    xp.asarray(np.zeros((2,)), chunks=(2,), spec=spec)
a = xp.asarray(np.arange(1.0, 5.0), chunks=(2,), spec=spec)
if kind == "neg": b = xp.negative(a)
elif kind == "chain": b = xp.negative(a) * 3 + 1
elif kind == "sum": b = xp.sum(a * 2, keepdims=True) + xp.zeros((4,), chunks=(2,), spec=spec)
else: b = a + a
sys.stdout.buffer.write(cloudpickle.dumps(b))
'''

EXPECT = {"neg": lambda a: -a, "chain": lambda a: -a * 3 + 1, "sum": lambda a: (a * 2).sum(keepdims=True) + np.zeros(4), "twice": lambda a: a + a}


RECEIVER = r"""
import sys, json, warnings, base64
warnings.simplefilter("ignore")
import numpy as np, cloudpickle, cubed, cubed.array_api as xp
from cubed.core.plan import arrays_to_dag
k_local, workdir = int(sys.argv[1]), sys.argv[2]
payload = base64.b64decode(sys.stdin.read())
spec = cubed.Spec(work_dir=workdir, allowed_mem="200MB")
base = np.arange(1.0, 5.0)
compute_local = len(sys.argv) > 3 and sys.argv[3] == "1"
for _ in range(k_local):
    z = xp.asarray(np.zeros((2,)), chunks=(2,), spec=spec)
    if compute_local:
        (z + 1).compute()        # the receiver has already planned and run computations of its own
b = cloudpickle.loads(payload)
try:
    out = {"alone": np.asarray(b.compute()).tolist(), "combos": {}}
except Exception as e:
    out = {"alone": "EXC " + type(e).__name__ + ": " + str(e)[:100], "combos": {}}
c = xp.asarray(base * 10, chunks=(2,), spec=spec)
d = xp.negative(c)
def enc(n):
    kind, num = n.rsplit("-", 1)
    return int(num) * 2 + (1 if kind == "array" else 0)
def named(n):
    return "-" in n and n.rsplit("-", 1)[1].isdigit()
def defining(dag, n):
    dd = dag.nodes[n]
    po = dd.get("primitive_op")
    return (dd.get("type"), dd.get("op_name"), dd.get("func_name"), id(dd.get("target")), id(po),
            tuple(po.source_array_names) if po is not None else ())
def abstract(dag, tags):
    items = []
    for n in dag.nodes:
        if not named(n):
            continue
        t = tags.setdefault(defining(dag, n), len(tags) + 1)
        items.append((enc(n), t, []))
    return items
for cname, f in (("remote+local", lambda: b + d), ("local+remote", lambda: d + b), ("remote*remote", lambda: b * b),
                 ("local-derived-from-remote", lambda: xp.negative(b) + c)):
    try:
        y = f()
        out["combos"][cname] = np.asarray(y.compute()).tolist()
    except Exception as e:
        out["combos"][cname] = "EXC " + type(e).__name__ + ": " + str(e)[:100]
shared = sorted(set(b._plan.dag.nodes) & set(d._plan.dag.nodes))
out["shared"] = [n for n in shared if named(n)]
# a remote name collides when this process has generated (or will have generated, for the combinations above) the same name
import cubed.core.array as _ca, cubed.core.plan as _cp
def local_has(n):
    kind, num = n.rsplit("-", 1)
    return int(num) <= (_ca.sym_counter if kind == "array" else _cp.sym_counter)
out["collide"] = [n for n in b._plan.dag.nodes if named(n) and local_has(n)]
merged_edges = set(arrays_to_dag(b, d).edges())
out["edges_are_union"] = merged_edges == (set(b._plan.dag.edges()) | set(d._plan.dag.edges()))
tags = {}
pa, pb = abstract(b._plan.dag, tags), abstract(d._plan.dag, tags)
pm = abstract(arrays_to_dag(b, d), tags)
out["pa"], out["pb"], out["pm"] = pa, pb, pm
print(json.dumps(out))
"""


def run(ctx):
    import base64

    import cloudpickle
    import cubed
    import cubed.array_api as xp

    warnings.filterwarnings("ignore")
    base = np.arange(1.0, 5.0)
    cases = []
    tmp = tempfile.mkdtemp(prefix="c20_", dir="/dev/shm" if os.path.isdir("/dev/shm") else None)
    child_py, recv_py = os.path.join(tmp, "child.py"), os.path.join(tmp, "recv.py")
    open(child_py, "w").write(CHILD)
    open(recv_py, "w").write(RECEIVER)
    spec = cubed.Spec(work_dir=os.path.join(tmp, "w"), allowed_mem="200MB")
    env = {**os.environ, "PYTHONPATH": os.environ.get("VERIF_REPO", "/repo")}
    try:
        for rep in range(ctx.n(16, 240)):
            kind = ctx.rng.choice(list(EXPECT))
            k_remote = ctx.rng.choice([0, 0, 1, 3, 7])
            k_local = ctx.rng.choice([0, 0, 1, 2, 5])
            compute_local = ctx.rng.random() < 0.5
            where = ctx.rng.choice(["fresh-process", "fresh-process", "fresh-process", "same-process"])
            if compute_local and where != "same-process":
                k_local = max(k_local, 3)        # the receiver has planned and run several computations of its own
            desc = {"expr": kind, "where": where, "sender_created_before": k_remote, "receiver_created_before": k_local,
                    "receiver_computed_before": compute_local}
            want_b = EXPECT[kind](base)
            expected = {"remote+local": want_b + (-base * 10), "local+remote": (-base * 10) + want_b, "remote*remote": want_b * want_b,
                        "local-derived-from-remote": -want_b + base * 10}
            if where == "same-process":
                # serialise and deserialise inside this process
                # a Spec of its own per case: the array is serialized before anything was computed under it, the process then
                # (sometimes) computes another array of the same Spec, and only then deserializes
                spec = cubed.Spec(work_dir=os.path.join(tmp, "w"), allowed_mem="200MB")
                a0 = xp.asarray(base, chunks=(2,), spec=spec)
                b0 = {"neg": lambda: xp.negative(a0), "chain": lambda: xp.negative(a0) * 3 + 1,
                      "sum": lambda: xp.sum(a0 * 2, keepdims=True) + xp.zeros((4,), chunks=(2,), spec=spec), "twice": lambda: a0 + a0}[kind]()
                payload = cloudpickle.dumps(b0)
                ctx.evaluations += 1
                c = xp.asarray(base * 10, chunks=(2,), spec=spec)
                d = xp.negative(c)
                if compute_local:
                    d.compute()
                b = cloudpickle.loads(payload)
                def attempt(f):
                    try:
                        return np.asarray(f().compute())
                    except Exception as e:
                        return "EXC " + type(e).__name__ + ": " + str(e)[:100]
                # the combinations come first: an array deserialized before anything was computed under its Spec must still
                # combine with local arrays of the same Spec afterwards
                combos = {"remote+local": attempt(lambda: b + d), "local+remote": attempt(lambda: d + b), "remote*remote": attempt(lambda: b * b),
                          "local-derived-from-remote": attempt(lambda: xp.negative(b) + c)}
                res = {"alone": attempt(lambda: b), "combos": combos}
                collide, shared, model = [], [], None
            else:
                o1 = subprocess.run(["/venv/bin/python", child_py, str(k_remote), kind, os.path.join(tmp, "w")], capture_output=True, env=env)
                if o1.returncode != 0:
                    ctx.fail("child-failed", o1.stderr.decode()[-300:], desc)
                    continue
                o2 = subprocess.run(["/venv/bin/python", recv_py, str(k_local), os.path.join(tmp, "w"), "1" if compute_local else "0"], input=base64.b64encode(o1.stdout),
                                    capture_output=True, env=env)
                if o2.returncode != 0:
                    ctx.fail("receiver-failed", o2.stderr.decode()[-400:], desc)
                    continue
                res = json.loads(o2.stdout.decode().strip().splitlines()[-1])
                collide, shared = res["collide"], res["shared"]
                model = res
            ctx.evaluations += 1
            if isinstance(res["alone"], str) or not np.array_equal(np.asarray(res["alone"]), want_b):
                ctx.fail("roundtrip-changes-value", f"deserialized array ({where}) computed on its own gives {res['alone']}, expected {want_b.tolist()}", desc)
            for cname, want in expected.items():
                got = res["combos"][cname]
                cd = {**desc, "combination": cname}
                ctx.count("combination:" + cname)
                if isinstance(got, str) or not np.array_equal(np.asarray(got), want):
                    if collide and where == "fresh-process":
                        ctx.fail("pickle/cross-process-name-collision",
                                 f"{cname}: arrays from two processes carry the same names {collide[:3]}; result {got}, expected {want.tolist()}", cd)
                    else:
                        ctx.fail("combination-wrong-value", f"{cname} ({where}): result {got}, expected {want.tolist()}", cd)
            if model and not model.get("edges_are_union", True):
                ctx.fail("merge-edges-not-union", "arrays_to_dag edges are not the union of the operands' edges", desc)
            ctx.count("plans-share-names" if shared else "plans-disjoint")
            ctx.count("where:" + where)
            if shared or where == "same-process":
                ctx.nt(desc)
            if model:
                term = lambda items: "[" + "; ".join(f"({k_}, NOp {t} {cnatlist(p)})" for k_, t, p in items) + "]"
                keys = sorted(k_ for k_, _, _ in model["pm"])
                collide_model = bool([1 for k_, t, p in model["pa"] for k2, t2, p2 in model["pb"] if k_ == k2 and (t, p) != (t2, p2)])
                # networkx merges the attribute dictionaries of a shared name key by key; when the two plans agree on shared
                # names (the only case with a meaning) that is the later node itself, which is what Model.Naming.merge keeps;
                # for colliding plans only the detection (compatible = false) is compared
                eq = "true" if collide_model else f"plan_eq_as_maps (merge {term(model['pa'])} {term(model['pb'])}) {term(model['pm'])} {cnatlist(keys)}"
                cases.append({"expr": f"{eq} && "
                                      f"Bool.eqb (compatible {term(model['pa'])} {term(model['pb'])}) {'false' if collide_model else 'true'}",
                              "desc": desc, "show": f"compatible {term(model['pa'])} {term(model['pb'])}"})
            if rep < 2:
                ctx.sample({**desc, "shared_names": shared, "colliding": collide})
    finally:
        import shutil
        shutil.rmtree(tmp, ignore_errors=True)
    ctx.corr("plan_merge", "Model.Util Model.Naming", cases, chunk=100)


def search(ctx):
    pass


def replay(ctx, obj):
    print(json.dumps(obj, indent=1, default=str)[:3000])
    return 0
