"""C18 - resource specs cannot be mixed silently and memory settings mean what they say."""
from __future__ import annotations

import inspect
import json
import math
import os
import shutil
import tempfile
import warnings

import numpy as np

from harness.framework import cZ, cbool

LEVEL = "proof"
TRANSLATED_KERNELS = ["Spec.__eq__", "check_array_specs"]   # harness/translate.py: re-translated from /repo on every run and proved equal to Model.SpecCfg.spec_eqb / check_array_specs
RULE = ("K: convert_to_bytes / Spec(...) on literals rendered from (sign, digits, fraction digits, exponent, unit, spacing) incl. >53-bit "
        "values, ints and floats, vs Model.SpecCfg.convert_literal (exact decimal semantics); Spec.__eq__/check_array_specs on specs "
        "drawn field by field vs the model; O: every public callable of cubed / cubed.array_api is probed with argument templates, "
        "each one that combines >=2 arrays is re-called with specs differing in one field at a time: ValueError, or (broadcast_arrays, "
        "meshgrid, eagerly evaluated index arguments) no returned array depends on both inputs; malformed literals must be rejected; "
        "finalized plans carry the Spec's allowed_mem/reserved_mem. non-trivial literal = has fraction, exponent, unit or >15 digits; "
        "distinct = distinct literal / function x field")
ASSUMPTIONS = ["the harness renders the literal from the structured form handed to the model (the parse is Python's float()/Decimal grammar)"]
TRUSTED = []

UNITS = [("", 0), ("B", 0), ("kB", 1), ("MB", 2), ("GB", 3), ("TB", 4), ("PB", 5)]


def gen_literal(rng):
    neg = rng.random() < 0.08
    kind = rng.random()
    if kind < 0.25:
        ip = str(rng.randint(0, 10**rng.choice([1, 3, 6, 9])))
    elif kind < 0.45:
        ip = str(rng.randint(2**52, 2**70))
    else:
        ip = str(rng.randint(0, 5000))
    fp = ""
    if rng.random() < 0.45:
        nd = rng.choice([1, 2, 3, 6, 9, 17, 20])
        fp = "".join(rng.choice("0123456789") for _ in range(nd))
        if rng.random() < 0.5:
            fp = fp.rstrip("0123456789"[rng.randint(1, 9):]) or "0" if False else fp
        if rng.random() < 0.4:
            fp = fp[: max(1, nd // 3)] + "0" * (nd - max(1, nd // 3))
    ex = None
    if rng.random() < 0.2:
        ex = rng.randint(-6, 12)
    unit, up = rng.choice(UNITS)
    s = ("-" if neg else ("+" if rng.random() < 0.05 else "")) + ip
    if fp or rng.random() < 0.03:
        s += "." + fp
    if ex is not None:
        s += rng.choice("eE") + str(ex)
    if rng.random() < 0.15 and len(ip) > 3 and "." not in s and ex is None:
        s = s[:-3] + "_" + s[-3:]
    sp = " " if rng.random() < 0.2 else ""
    text = s + sp + unit
    if rng.random() < 0.05:
        text = " " + text
    mant = int(ip + fp) if (ip + fp) else 0
    e = (ex or 0) - len(fp)
    return text, neg, mant, e, up


MALFORMED = ["", " ", "kB", "B", "MB", "1EB", "1kb", "1KB", "1 k B x", "abc", "1.2.3MB", "1,000", "0x10", "1e", "e5", "--1", "1MBB",
             "10 mB", "1Gb", "inf", "-inf", "nan", "infinity", "٣kB?", "1/2MB", "1kB1", "12 MiB", "1 KiB"]


def k_convert(ctx):
    from cubed.utils import convert_to_bytes

    r = ctx.rng
    cases = []
    for _ in range(ctx.n(1500, 30000)):
        text, neg, mant, e, up = gen_literal(r)
        ctx.evaluations += 1
        try:
            v = convert_to_bytes(text)
            res = f"(Bytes {cZ(v)})" if isinstance(v, int) and not isinstance(v, bool) else None
            if res is None:
                ctx.fail("convert-returns-non-int", f"convert_to_bytes({text!r}) returned {v!r}", {"literal": text})
                continue
        except ValueError:
            res = "Rejected"
        except Exception as ex:
            ctx.fail("convert-incidental-exception", f"convert_to_bytes({text!r}) raised {type(ex).__name__}", {"literal": text})
            continue
        cases.append({"expr": f"cres_eqb (convert_literal {cbool(neg)} {cZ(mant)} {cZ(e)} {cZ(up)}) {res}",
                      "desc": {"literal": text}, "show": f"convert_literal {cbool(neg)} {cZ(mant)} {cZ(e)} {cZ(up)}"})
        ctx.count("accepted" if res != "Rejected" else "rejected")
        if "." in text or "e" in text.lower() or up or len(str(mant)) > 15:
            ctx.nt(text)
        if len(ctx.samples) < 4:
            ctx.sample({"literal": text, "result": res})
        # independent exact oracle
        from fractions import Fraction
        exact = Fraction(mant) * (Fraction(10) ** (e + 3 * up)) * (-1 if neg else 1)
        if res != "Rejected":
            if exact != v:
                ctx.fail("convert-inexact", f"convert_to_bytes({text!r}) = {v} but the literal denotes {exact}", {"literal": text})
        elif exact.denominator == 1 and exact >= 0:
            ctx.fail("convert-rejects-valid", f"convert_to_bytes({text!r}) rejected a whole non-negative number of bytes", {"literal": text})
    # ints and floats
    for _ in range(ctx.n(300, 4000)):
        if r.random() < 0.5:
            z = r.choice([0, 1, -1, r.randint(-10**6, 10**18), 2**63, 2**70 + 1])
            try:
                v = convert_to_bytes(z)
                res = f"(Bytes {cZ(v)})"
            except ValueError:
                res = "Rejected"
            cases.append({"expr": f"cres_eqb (convert_int {cZ(z)}) {res}", "desc": {"int": z}, "show": f"convert_int {cZ(z)}"})
        else:
            x = r.choice([0.0, 1.5, 50.0, 1e20, 2.0**60, 1200000.0, r.random() * 10**r.randint(0, 18), float(r.randint(0, 10**15)), -3.0, 0.1])
            m, ex2 = math.frexp(x)
            mant, exq = int(m * 2**53), ex2 - 53
            try:
                v = convert_to_bytes(x)
                res = f"(Bytes {cZ(v)})"
            except ValueError:
                res = "Rejected"
            cases.append({"expr": f"cres_eqb (convert_float {cZ(mant)} {cZ(exq)}) {res}", "desc": {"float": repr(x)}, "show": f"convert_float {cZ(mant)} {cZ(exq)}"})
        ctx.evaluations += 1
    ctx.corr("convert_to_bytes", "Model.Util Model.SpecCfg", cases, chunk=500)
    for text in MALFORMED:
        ctx.evaluations += 1
        try:
            v = convert_to_bytes(text)
            ctx.fail("malformed-accepted", f"convert_to_bytes({text!r}) = {v!r}", {"literal": text})
        except Exception:
            ctx.count("malformed-rejected")


def k_spec(ctx):
    import cubed
    from cubed.core.array import check_array_specs
    from cubed.runtime.create import create_executor

    r = ctx.rng
    import zarr
    stores = [None, zarr.storage.MemoryStore(), zarr.storage.MemoryStore()]
    execs = [None, create_executor("single-threaded"), create_executor("threads"), create_executor("threads", {"max_workers": 2})]
    pools = dict(work_dir=[None, "/tmp/a", "/tmp/b"], intermediate_store=stores, allowed_mem=[10**6, "1MB", 2 * 10**6],
                 reserved_mem=[0, 100, "100B"], executor=execs, storage_options=[None, {"a": 1}, {"a": 2}],
                 zarr_compressor=["auto", None, {"name": "zstd", "configuration": {"level": 1}}])
    from cubed.utils import convert_to_bytes

    def intern(field, v):
        if field in ("allowed_mem", "reserved_mem"):
            return convert_to_bytes(v)
        pool = pools[field]
        # equal values (Spec.__eq__ uses ==) get the same number
        for i, p in enumerate(pool):
            try:
                if (p == v) is True or p is v:
                    return i
            except Exception:
                pass
        return 99

    def term(s):
        return (f"(S7 {intern('work_dir', s['work_dir'])} {intern('intermediate_store', s['intermediate_store'])} "
                f"{cZ(intern('allowed_mem', s['allowed_mem']))} {cZ(intern('reserved_mem', s['reserved_mem']))} "
                f"{intern('executor', s['executor'])} {intern('storage_options', s['storage_options'])} {intern('zarr_compressor', s['zarr_compressor'])})")

    cases = []
    for _ in range(ctx.n(300, 5000)):
        base = {f: r.choice(p) for f, p in pools.items()}
        n = r.randint(1, 4)
        specs = []
        for i in range(n):
            s = dict(base)
            if r.random() < 0.4:
                f = r.choice(list(pools))
                s[f] = r.choice(pools[f])
            specs.append(s)
        objs = [cubed.Spec(**s) for s in specs]
        arrays = [type("A", (), {"spec": o})() for o in objs]
        try:
            got = check_array_specs(arrays)
            res = "true"
            same = got is objs[0]
        except ValueError:
            res = "false"
        ctx.evaluations += 1
        lst = "[" + "; ".join(term(s) for s in specs) + "]"
        cases.append({"expr": f"Bool.eqb (match check_array_specs {lst} with Some _ => true | None => false end) {res}"
                              + "".join(f" && Bool.eqb (spec_eqb {term(specs[0])} {term(s)}) {cbool(objs[0] == o)}" for s, o in zip(specs[1:], objs[1:])),
                      "desc": {"specs": [{k: repr(v) for k, v in s.items()} for s in specs]}, "show": f"check_array_specs {lst}"})
        if res == "false":
            ctx.nt(json.dumps([{k: repr(v) for k, v in s.items()} for s in specs]))
    ctx.corr("spec_equality", "Model.Util Model.SpecCfg", cases, chunk=300)


# ------------------------------------------------------------------------------------------- O2
def mk_arrays(spec, kind):
    import cubed.array_api as xp

    if kind == "2d":
        return xp.asarray(np.arange(16.0).reshape(4, 4), chunks=(2, 2), spec=spec)
    if kind == "1d":
        return xp.asarray(np.arange(6.0), chunks=(3,), spec=spec)
    if kind == "1dint":
        return xp.asarray(np.array([0, 2, 1]), chunks=(3,), spec=spec)
    if kind == "bool2d":
        return xp.asarray(np.arange(16).reshape(4, 4) % 2 == 0, chunks=(2, 2), spec=spec)
    raise ValueError(kind)


TEMPLATES = [
    ("f(a,b)", ["2d", "2d"], lambda f, a: f(a[0], a[1])),
    ("f([a,b])", ["2d", "2d"], lambda f, a: f([a[0], a[1]])),
    ("f([a,b],axis=0)", ["2d", "2d"], lambda f, a: f([a[0], a[1]], axis=0)),
    ("f(cond,a,b)", ["bool2d", "2d", "2d"], lambda f, a: f(a[0], a[1], a[2])),
    ("f(a1,b1)", ["1d", "1d"], lambda f, a: f(a[0], a[1])),
    ("f(a,idx)", ["2d", "1dint"], lambda f, a: f(a[0], a[1])),
    ("f(a,idx,axis=0)", ["2d", "1dint"], lambda f, a: f(a[0], a[1], axis=0)),
    ("f(a,b,axes=1)", ["2d", "2d"], lambda f, a: f(a[0], a[1], axes=1)),
    ("f(a,min,max)", ["2d", "2d", "2d"], lambda f, a: f(a[0], a[1], a[2])),
    ("f(*arrays)", ["1d", "1d"], lambda f, a: f(*a)),
]

SINGLE_SOURCE_OK = {"broadcast_arrays", "meshgrid"}     # each output derives from one argument
EAGER_INDEX_OK = {"take", "__getitem__"}                # an index argument is evaluated eagerly on its own


def arrays_in(x):
    from cubed.core.array import CoreArray

    if isinstance(x, CoreArray):
        return [x]
    if isinstance(x, (list, tuple)):
        return [y for e in x for y in arrays_in(e)]
    return []


def o_mixed(ctx):
    import cubed
    import cubed.array_api as xp
    from cubed.runtime.create import create_executor
    import zarr

    base = dict(work_dir=None, allowed_mem=10**8, reserved_mem=0)
    variants = {
        "work_dir": dict(work_dir="/tmp/c18_other"),
        "intermediate_store": dict(intermediate_store=zarr.storage.MemoryStore()),
        "allowed_mem": dict(allowed_mem=2 * 10**8),
        "reserved_mem": dict(reserved_mem=1000),
        "executor": dict(executor=create_executor("single-threaded")),
        "storage_options": dict(storage_options={"x": 1}),
        "zarr_compressor": dict(zarr_compressor=None),
        # both specs name the same executor and differ only in its options ("__s0__" = what the first spec gets instead of base)
        "executor_options": dict(executor_name="threads", executor_options={"max_workers": 4},
                                 __s0__=dict(executor_name="threads", executor_options={"max_workers": 1})),
        "executor_name": dict(executor_name="threads", __s0__=dict(executor_name="single-threaded")),
    }
    s0 = cubed.Spec(**base)
    names = [("xp", n) for n in xp.__all__] + [("cubed", n) for n in cubed.__all__] + [("linalg", n) for n in getattr(xp.linalg, "__all__", dir(xp.linalg)) if not n.startswith("_")]
    table = {}
    for ns, name in names:
        mod = {"xp": xp, "cubed": cubed, "linalg": xp.linalg}[ns]
        f = getattr(mod, name, None)
        if not callable(f) or inspect.isclass(f):
            continue
        for tname, kinds, call in TEMPLATES:
            try:
                with warnings.catch_warnings():
                    warnings.simplefilter("ignore")
                    out = call(f, [mk_arrays(s0, k) for k in kinds])
            except Exception:
                continue
            outs = arrays_in(out)
            if not outs:
                continue
            table[f"{ns}.{name}"] = tname
            for field, delta in variants.items():
                s0v = cubed.Spec(**{**base, **delta["__s0__"]}) if "__s0__" in delta else s0
                s1 = cubed.Spec(**{**base, **{k_: v_ for k_, v_ in delta.items() if k_ != "__s0__"}})
                specs = [s0v] + [s1] * (len(kinds) - 1)
                desc = {"function": f"{ns}.{name}", "template": tname, "field": field}
                ctx.evaluations += 1
                try:
                    with warnings.catch_warnings():
                        warnings.simplefilter("ignore")
                        args = [mk_arrays(sp, k) for sp, k in zip(specs, kinds)]
                        out = call(f, args)
                except ValueError:
                    ctx.count("mixed-rejected")
                    ctx.nt(desc)
                    continue
                except Exception as e:
                    ctx.count("mixed-other-exception:" + type(e).__name__)
                    continue
                # accepted: fine only if no output depends on arrays of both specs
                innames = [a.name for a in args]
                offending = []
                for o in arrays_in(out):
                    nodes = set(o._plan.dag.nodes)
                    dep = [n for n in innames if n in nodes]
                    sp = {id(a.spec) for a in args if a.name in dep}
                    if len({(a.spec is s0v) for a in args if a.name in dep}) > 1:
                        offending.append(o.name)
                if offending:
                    if name in EAGER_INDEX_OK:
                        ctx.count("mixed-eager-index-accepted")
                        continue
                    ctx.fail(f"mixed-specs-accepted:{ns}.{name}", f"{ns}.{name} {tname} combined arrays whose specs differ in {field} without error", desc)
                else:
                    ctx.count("mixed-single-source-accepted")
            break
    # compute / store / visualize over several arrays
    for field, delta in variants.items():
        s0v = cubed.Spec(**{**base, **delta["__s0__"]}) if "__s0__" in delta else s0
        s1 = cubed.Spec(**{**base, **{k_: v_ for k_, v_ in delta.items() if k_ != "__s0__"}})
        a, b = mk_arrays(s0v, "2d"), mk_arrays(s1, "2d")
        for nm, fn in (("compute", lambda: cubed.compute(xp.negative(a), xp.negative(b))),
                       ("visualize", lambda: cubed.visualize(xp.negative(a), xp.negative(b), filename=os.path.join(tempfile.gettempdir(), f"c18_vis_{os.getpid()}"))),
                       ("store", lambda: cubed.store([xp.negative(a), xp.negative(b)], [zarr.storage.MemoryStore(), zarr.storage.MemoryStore()])),
                       ("plan", lambda: cubed.core.array.plan(xp.negative(a), xp.negative(b)))):
            ctx.evaluations += 1
            try:
                with warnings.catch_warnings():
                    warnings.simplefilter("ignore")
                    fn()
                ctx.fail(f"mixed-specs-accepted:{nm}", f"cubed.{nm} over arrays whose specs differ in {field} did not raise", {"function": nm, "field": field})
            except ValueError:
                ctx.count("mixed-rejected")
            except Exception as e:
                ctx.count("mixed-other-exception:" + type(e).__name__)
    ctx.sample({"probed_templates": dict(list(table.items())[:12])})
    ctx.dist["functions_combining_arrays"] = len(table)
    # plan budgets come from the spec
    for allowed, reserved in ((10**8, 0), ("200MB", "1MB"), (123456789, 1000)):
        sp = cubed.Spec(allowed_mem=allowed, reserved_mem=reserved)
        y = xp.sum(xp.add(mk_arrays(sp, "2d"), 1), axis=0)
        pl = y.plan()
        ctx.evaluations += 1
        for n, d in pl.dag.nodes(data=True):
            if "primitive_op" in d:
                if d["primitive_op"].allowed_mem != sp.allowed_mem or d["primitive_op"].reserved_mem != sp.reserved_mem:
                    ctx.fail("budget-not-from-spec", f"op {n} has allowed/reserved {d['primitive_op'].allowed_mem}/{d['primitive_op'].reserved_mem}, spec says {sp.allowed_mem}/{sp.reserved_mem}", {"allowed": allowed, "reserved": reserved})


def run(ctx):
    # some public functions (visualize) write a picture into the current directory: run from a scratch directory
    cwd = os.getcwd()
    scratch = tempfile.mkdtemp(prefix="c18_cwd_")
    os.chdir(scratch)
    try:
        _run(ctx)
    finally:
        os.chdir(cwd)
        shutil.rmtree(scratch, ignore_errors=True)


def _run(ctx):
    warnings.filterwarnings("ignore")
    k_convert(ctx)
    k_spec(ctx)
    o_mixed(ctx)


def search(ctx):
    pass


def replay(ctx, obj):
    print(json.dumps(obj, indent=1, default=str)[:4000])
    return 0
