"""C01 - computed values equal NumPy's for every expression, chunking and executor."""
from __future__ import annotations

import itertools
import json
import warnings

import numpy as np

from harness import gen_programs as G
from harness.framework import cbool, cnatlist, pmap
from harness.progrun import run_program

LEVEL = "proof"
TRANSLATED_KERNELS = ["index.chunk_len_for_indexer", "index.merged_chunk_len_for_indexer", "_index_num_input_blocks"]   # harness/translate.py: per-axis arithmetic of basic indexing re-translated from /repo on every run and proved equal to Model.IndexGuard (= Model.StridedIndex on canonical slices)
RULE = ("O: generated programs over all op families of harness/gen_programs.py (0-3 dims, size-0/1 dims, independently chunked "
        "inputs, uneven last chunks, single-element chunks, several outputs, sharing) evaluated by cubed (adversarial sequential "
        "executor, threads, processes in thorough; optimize_graph on/off) and by NumPy on the same integer-valued data; shape and "
        "values compared (var/std/linalg-free, so exact). K: the real back_key_function of partial_reduce / stack / unstack / scan "
        "ops on drawn geometries, evaluated at every output block, vs Model.OpsKF; scan's acceptance vs scan_accepts. "
        "non-trivial = program with >=2 ops and a multi-block input; distinct = distinct program x configuration")
ASSUMPTIONS = ["integer-valued data keeps sums/products exact so comparison with NumPy is exact",
               "an explicit build/plan-time refusal is not a wrong value (classified by C17)"]
TRUSTED = []


# array ids are written relative to the first array of the current case, so that the nat literals stay small however many
# arrays the process has created before
_BASE = [0]


def kt(x):
    from cubed.primitive.blockwise import ChunkKey, FunctionArgs
    from collections.abc import Iterator

    if isinstance(x, ChunkKey):
        return f"KLeaf ({int(x.name.rsplit('-', 1)[1]) - _BASE[0]}, {cnatlist(x.coords)})"
    if isinstance(x, list):
        return "KList [" + "; ".join(kt(a) for a in x) + "]"
    if isinstance(x, Iterator):
        return "KIter [" + "; ".join(kt(a) for a in x) + "]"
    raise TypeError(repr(x))


def producer_kf(arr):
    dag = arr._plan.dag
    op = next(iter(dag.predecessors(arr.name)))
    return dag.nodes[op]["primitive_op"].pipeline.config.back_key_function


def k_keyfunctions(ctx):
    import cubed
    import cubed.array_api as xp
    from cubed.core.ops import partial_reduce
    from cubed.primitive.blockwise import ChunkKey

    r = ctx.rng
    spec = cubed.Spec(allowed_mem="500MB")
    cases = []
    nid = lambda a: int(a.name.rsplit("-", 1)[1]) - _BASE[0]
    for _ in range(ctx.n(150, 3000)):
        nd = r.choice([1, 2, 2, 3])
        shape = tuple(r.randint(1, 9) for _ in range(nd))
        chunks = tuple(r.randint(1, n) for n in shape)
        x = xp.asarray(np.zeros(shape), chunks=chunks, spec=spec)
        _BASE[0] = int(x.name.rsplit("-", 1)[1]) - 1
        kind = r.choice(["partial_reduce", "stack", "unstack", "scan", "concat", "concat"])
        ctx.evaluations += 1
        desc = {"kind": kind, "shape": shape, "chunks": chunks}
        try:
            with warnings.catch_warnings():
                warnings.simplefilter("ignore")
                if kind == "partial_reduce":
                    axes = sorted(r.sample(range(nd), r.randint(1, nd)))
                    split = {ax: r.randint(2, 4) for ax in axes}
                    y = partial_reduce(x, np.sum, split_every=split, dtype=x.dtype)
                    kf = producer_kf(y)
                    splits = [split.get(i, 1) for i in range(nd)]
                    nbs = list(x.numblocks)
                    desc.update(split=split)
                    for oc in itertools.product(*[range(n) for n in y.numblocks]):
                        fa = kf(ChunkKey(y.name, oc))
                        cases.append({"expr": f"ktreelist_eqb [partial_reduce_kf {nid(x)} {cnatlist(splits)} {cnatlist(nbs)} {cnatlist(oc)}] [{kt(fa.args[0])}]"
                                              f" && Nat.eqb (length {cnatlist(list(y.numblocks))}) {nd}"
                                              + "".join(f" && Nat.eqb (pr_numblocks {s} {n}) {m}" for s, n, m in zip(splits, nbs, y.numblocks)),
                                      "desc": {**desc, "out": oc}, "show": f"partial_reduce_kf {nid(x)} {cnatlist(splits)} {cnatlist(nbs)} {cnatlist(oc)}"})
                elif kind == "concat":
                    ax = r.randrange(nd)
                    k = r.randint(2, 3)
                    arrs = [x]
                    axis_chunk = chunks[ax]
                    for _j in range(k - 1):
                        sh = list(shape)
                        sh[ax] = r.randint(1, 9)
                        ch = [r.randint(1, n) for n in sh]
                        ch[ax] = axis_chunk if (sh[ax] > axis_chunk or r.random() < 0.5) else r.randint(1, sh[ax])
                        if r.random() < 0.6:
                            ch = [chunks[i] if i != ax else ch[i] for i in range(nd)]
                        arrs.append(xp.asarray(np.zeros(tuple(sh)), chunks=tuple(min(c_, n_) for c_, n_ in zip(ch, sh)), spec=spec))
                    y = xp.concat(arrs, axis=ax)
                    dag = y._plan.dag
                    op = next(iter(dag.predecessors(y.name)))
                    pop = dag.nodes[op]["primitive_op"]
                    kf = pop.pipeline.config.back_key_function
                    srcs = [dag.nodes[n_]["target"] for n_ in pop.source_array_names]
                    names = [int(n_.rsplit("-", 1)[1]) - _BASE[0] for n_ in pop.source_array_names]
                    from cubed.utils import to_chunksize, normalize_chunks
                    in_cs = [list(to_chunksize(normalize_chunks(t.chunks, shape=t.shape, dtype=t.dtype))) for t in srcs]
                    offs = [0]
                    for t in srcs:
                        offs.append(offs[-1] + t.shape[ax])
                    out_cs = list(y.chunksize)
                    desc.update(axis=ax, shapes=[tuple(t.shape) for t in srcs], in_chunksizes=in_cs)
                    from harness.framework import cnatlist2
                    for oc in itertools.product(*[range(n) for n in y.numblocks]):
                        fa = kf(ChunkKey(y.name, oc))
                        got = "[" + "; ".join(f"({int(kk.name.rsplit('-', 1)[1]) - _BASE[0]}, {cnatlist(kk.coords)})" for kk in fa.args[0]) + "]"
                        cases.append({"expr": f"keys_eqb (concat_kf {cnatlist(names)} {cnatlist2(in_cs)} {cnatlist(offs)} {ax} {cnatlist(out_cs)} {cnatlist(y.shape)} {cnatlist(oc)}) {got}",
                                      "desc": {**desc, "out": oc}, "show": f"concat_kf {cnatlist(names)} {cnatlist2(in_cs)} {cnatlist(offs)} {ax} {cnatlist(out_cs)} {cnatlist(y.shape)} {cnatlist(oc)}"})
                elif kind == "stack":
                    k = r.randint(2, 3)
                    arrs = [x] + [xp.asarray(np.zeros(shape), chunks=chunks, spec=spec) for _ in range(k - 1)]
                    ax = r.randint(0, nd)
                    y = xp.stack(arrs, axis=ax)
                    kf = producer_kf(y)
                    names = [nid(a) for a in arrs]
                    desc.update(axis=ax, n=k)
                    for oc in itertools.product(*[range(n) for n in y.numblocks]):
                        fa = kf(ChunkKey(y.name, oc))
                        cases.append({"expr": f"ktreelist_eqb [stack_kf {cnatlist(names)} {ax} {cnatlist(oc)}] [{kt(fa.args[0])}]",
                                      "desc": {**desc, "out": oc}, "show": f"stack_kf {cnatlist(names)} {ax} {cnatlist(oc)}"})
                elif kind == "unstack":
                    cands = [i for i, n in enumerate(shape) if n >= 2]
                    if not cands:
                        continue
                    ax = r.choice(cands)
                    ys = xp.unstack(x, axis=ax)
                    kf = producer_kf(ys[0])
                    desc.update(axis=ax)
                    for oc in itertools.product(*[range(n) for n in ys[0].numblocks]):
                        fa = kf(ChunkKey(ys[0].name, oc))
                        got = "[" + "; ".join(kt(a) for a in fa.args) + "]"
                        cases.append({"expr": f"ktreelist_eqb (unstack_kf {nid(x)} {ax} {x.numblocks[ax]} {cnatlist(oc)}) {got}",
                                      "desc": {**desc, "out": oc}, "show": f"unstack_kf {nid(x)} {ax} {x.numblocks[ax]} {cnatlist(oc)}"})
                else:
                    ax = r.randrange(nd)
                    nb = x.numblocks[ax]
                    try:
                        y = xp.cumulative_sum(x, axis=ax)
                        accepted = True
                    except AssertionError:
                        accepted = False
                    cases.append({"expr": f"Bool.eqb (scan_accepts {nb}) {cbool(accepted)}", "desc": {**desc, "axis": ax, "blocks": nb},
                                  "show": f"scan_accepts {nb}"})
                    if accepted and nb > 1:
                        dag = y._plan.dag
                        op = next(iter(dag.predecessors(y.name)))
                        pop = dag.nodes[op]["primitive_op"]
                        kf = pop.pipeline.config.back_key_function
                        sc, inc = [int(n.rsplit("-", 1)[1]) - _BASE[0] for n in pop.source_array_names]
                        for oc in list(itertools.product(*[range(n) for n in y.numblocks]))[:12]:
                            fa = kf(ChunkKey(y.name, oc))
                            got = "[" + "; ".join(kt(a) for a in fa.args) + "]"
                            cases.append({"expr": f"ktreelist_eqb (scan_kf {sc} {inc} {ax} 5 {cnatlist(oc)}) {got}",
                                          "desc": {**desc, "axis": ax, "out": oc}, "show": f"scan_kf {sc} {inc} {ax} 5 {cnatlist(oc)}"})
        except (ValueError, NotImplementedError):
            continue
        ctx.count("kf:" + kind)
        if int(np.prod(x.numblocks)) > 1:
            ctx.nt(desc)
    # long axes for scan acceptance
    for nb in list(range(1, 60)) + [75, 100, 125, 126, 250, 625]:
        x = xp.asarray(np.zeros((nb,)), chunks=(1,), spec=spec)
        try:
            with warnings.catch_warnings():
                warnings.simplefilter("ignore")
                xp.cumulative_sum(x, axis=0)
            acc = True
        except AssertionError:
            acc = False
        ctx.evaluations += 1
        cases.append({"expr": f"Bool.eqb (scan_accepts {nb}) {cbool(acc)}", "desc": {"scan_blocks": nb}, "show": f"scan_accepts {nb}"})
    ctx.corr("op_key_functions", "Model.Util Model.Keys Model.OpsKF Model.Selection", cases, chunk=400)


def work(part, n):
    for _ in range(n):
        r_ = part.rng.random()
        if r_ < 0.2:
            prog = G.gen_pattern_program(part.rng)
        elif r_ < 0.35:
            # selection-heavy programs: combinations of integer indexes, negative / positive steps, integer arrays, newaxis
            prog = G.gen_program(part.rng, maxlen=8, families=["indexing"] * 6 + ["elementwise"], nstmts=part.rng.randint(1, 3))
        else:
            prog = G.gen_program(part.rng, maxlen=8)
        og = part.rng.random() < 0.5
        r0 = part.rng.random()
        executor = "adversarial" if r0 < 0.6 else ("threads" if (r0 < 0.95 or part.tier == "quick") else "processes")
        r = run_program(prog, executor=executor, optimize_graph=og, check_blocks=False)
        part.evaluations += 1
        desc = {"prog": prog, "optimize_graph": og, "executor": executor}
        part.count("phase:" + str(r["phase"]))
        part.count("executor:" + executor)
        for s in prog["stmts"]:
            part.count("op:" + s["op"])
        if r["phase"] != "ok":
            continue            # refusals and failures are C17's subject
        multi = any(any(c < n_ for c, n_ in zip(i["chunks"], i["shape"])) for i in prog["inputs"])
        if len(prog["stmts"]) >= 2 and multi:
            part.nt(desc)
        part.sample({"stmts": prog["stmts"][:3], "inputs": [(i["shape"], i["chunks"]) for i in prog["inputs"]]}, limit=1)
        for got, want, o in zip(r["results"], r["shadow"], prog["outs"]):
            want = np.asarray(want)
            if tuple(got.shape) != tuple(want.shape):
                part.fail("wrong-shape", f"array {o}: cubed shape {got.shape}, NumPy shape {want.shape}", desc)
            elif not G.values_equal(got, want):
                part.fail("wrong-values", f"array {o}: values differ from NumPy ({executor}, optimize_graph={og})", desc)


def k_strided(ctx):
    """K: one axis indexed by a positive-step slice: the slice every output block reads (_target_chunk_selection), the factor
    _index_num_input_blocks charges, the declared num_input_blocks of the real selection op and the input blocks its key
    function names for every output block vs Model.StridedIndex (block_sel, slice_nib, touched_chunks)"""
    import cubed
    import cubed.array_api as xp
    import ndindex
    from cubed.core.indexing import _index_num_input_blocks, _target_chunk_selection
    from cubed.primitive.blockwise import ChunkKey

    r = ctx.rng
    spec = cubed.Spec(allowed_mem="200MB")
    cases = []
    for _ in range(ctx.n(80, 1500)):
        n = r.randint(1, 20)
        c = r.randint(1, n)
        start = r.randrange(n)
        stop = r.randint(start + 1, n)
        step = r.choice([1, 2, 2, 3, 3, 4, 5, 7])
        sl = slice(start, stop, step)
        L = len(range(start, stop, step))
        idx = ndindex.ndindex((sl,)).expand((n,))
        ia = idx.args[0]
        nb = -(-n // c)
        oc = max(c // step, 1)
        ctx.evaluations += 1
        real_nib = _index_num_input_blocks(idx, (c,), (oc,), (nb,))
        from cubed.utils import normalize_chunks
        tchunks = normalize_chunks((oc,), (L,), dtype=np.float64)
        nblocks = len(tchunks[0])
        sels = [_target_chunk_selection(tchunks, (j,), idx.raw)[0] for j in range(nblocks)]
        sel_t = "[" + "; ".join(f"({s_.start}, {s_.stop})" for s_ in sels) + "]"
        # the real selection op
        with warnings.catch_warnings():
            warnings.simplefilter("ignore")
            a = xp.asarray(np.arange(float(n)), chunks=(c,), spec=spec)
            try:
                y = a[sl]
            except ValueError:
                # declined while building (merge_chunks refuses when the selected length is shorter than one merged chunk:
                # a[0:5:2] on one chunk of 8) - an explicit refusal, allowed by C01/C17; the arithmetic part is still compared
                y = None
                ctx.count("strided-declined-at-build")
        keys_t, decl = None, None
        ops = []
        if y is not None:
            dag = y._plan.dag
            ops = [d for _, d in dag.nodes(data=True) if d.get("primitive_op") is not None and a.name in d["primitive_op"].source_array_names]
        if len(ops) == 1 and y.shape != a.shape:
            pop = ops[0]["primitive_op"]
            decl = int(pop.pipeline.config.num_input_blocks[0])
            kf = pop.pipeline.config.back_key_function if hasattr(pop.pipeline.config, "back_key_function") else pop.pipeline.config.key_function
            tname = pop.target_array.name if hasattr(pop.target_array, "name") else None
            outname = [o for o in dag.successors([n_ for n_, d in dag.nodes(data=True) if d is ops[0]][0])][0]
            per_block = []
            for j in range(nblocks):
                fa = kf(ChunkKey(outname, (j,)))
                first = fa.args[0]
                ks = sorted({int(k_.coords[0]) for k_ in (first if not isinstance(first, ChunkKey) else [first])})
                per_block.append(ks)
            keys_t = "[" + "; ".join("[" + "; ".join(str(k_) for k_ in ks) + "]" for ks in per_block) + "]"
        desc = {"n": n, "chunk": c, "slice": [start, stop, step], "L": L}
        e = (f"list_eqb (pair_eqb Nat.eqb Nat.eqb) (map (block_sel {ia.start} {ia.step} {oc} {L}) (seq 0 {nblocks})) {sel_t} && "
             f"Nat.eqb (slice_nib {c} {nb} {ia.start} {ia.step} {L}) {real_nib} && Nat.eqb (canonical_stop {ia.start} {ia.step} {L}) {ia.stop}")
        if keys_t is not None:
            e += (f" && natlist2_eqb (map (fun j => sort_nat (touched_chunks {c} (block_positions {ia.start} {ia.step} {oc} {L} j))) (seq 0 {nblocks})) {keys_t}"
                  f" && forallb (fun j => length (touched_chunks {c} (block_positions {ia.start} {ia.step} {oc} {L} j)) <=? {decl}) (seq 0 {nblocks})")
            ctx.count("strided-with-real-op")
        if nblocks >= 2:
            ctx.nt(("strided", n, c, start, stop, step))
        cases.append({"expr": e, "desc": desc,
                      "show": f"(map (block_sel {ia.start} {ia.step} {oc} {L}) (seq 0 {nblocks}), slice_nib {c} {nb} {ia.start} {ia.step} {L}, "
                              f"map (fun j => touched_chunks {c} (block_positions {ia.start} {ia.step} {oc} {L} j)) (seq 0 {nblocks}))"})
    ctx.corr("strided_slice_selection", "Model.Util Model.Geometry Model.DagObs Model.StridedIndex", cases, chunk=300)


def index_sweep(part, n):
    """single selections a[idx] on 1-4-d arrays: every combination of integer indexes, slices with positive / negative steps,
    one integer array and newaxis that NumPy accepts - compared element by element"""
    import cubed
    import cubed.array_api as xp

    T = G.ops()
    spec = cubed.Spec(allowed_mem="200MB")
    for _ in range(n):
        nd = part.rng.choice([1, 2, 2, 3, 3, 3, 4])
        shape = tuple(part.rng.randint(1, 6) for _ in range(nd))
        chunks = G.gen_chunks(part.rng, shape)
        kw = T["index"][1](part.rng, [shape])
        an = np.arange(int(np.prod(shape)), dtype="float64").reshape(shape) + 1
        try:
            want = T["index"][3]([an], kw)
        except Exception:
            continue
        desc = {"index_sweep": {"shape": shape, "chunks": chunks, "idx": kw["idx"]}}
        part.evaluations += 1
        kinds = "".join(sorted({e[0] if e[0] != "s" else ("-" if (e[3] or 1) < 0 else "s") for e in kw["idx"]}))
        part.count("index-kinds:" + kinds)
        try:
            with warnings.catch_warnings():
                warnings.simplefilter("ignore")
                a = xp.asarray(an, chunks=chunks, spec=spec)
                got = np.asarray(T["index"][2](xp, cubed, [a], kw).compute(optimize_graph=part.rng.random() < 0.5))
        except Exception as e:
            part.count("index-declined:" + type(e).__name__)
            continue                # refusals and failures are C17's subject
        part.nt(desc)
        want = np.asarray(want)
        if tuple(got.shape) != tuple(want.shape):
            part.fail("wrong-shape", f"a[idx]: cubed shape {got.shape}, NumPy shape {want.shape}", desc)
        elif not G.values_equal(got, want):
            part.fail("wrong-values", "a[idx]: values differ from NumPy", desc)


def contraction_sweep(part, n):
    """tensordot with every form of `axes` (int, pair of lists in any order, negative axes), vecdot and batched matmul on
    1-4-d operands with independent chunkings"""
    import cubed
    import cubed.array_api as xp

    spec = cubed.Spec(allowed_mem="200MB")
    for _ in range(n):
        rng = part.rng
        kind = rng.choice(["tensordot-lists", "tensordot-lists", "tensordot-int", "vecdot", "matmul-batched"])
        if kind == "tensordot-lists":
            nd0, nd1 = rng.randint(1, 4), rng.randint(1, 4)
            k = rng.randint(1, min(nd0, nd1, 3))
            s0 = [rng.randint(1, 4) for _ in range(nd0)]
            s1 = [rng.randint(1, 4) for _ in range(nd1)]
            ax0, ax1 = rng.sample(range(nd0), k), rng.sample(range(nd1), k)
            for i, j in zip(ax0, ax1):
                s1[j] = s0[i]
            axes = ([a - nd0 if rng.random() < 0.3 else a for a in ax0], [a - nd1 if rng.random() < 0.3 else a for a in ax1])
            call = lambda m, x, y: m.tensordot(x, y, axes=(tuple(axes[0]), tuple(axes[1])))
        elif kind == "tensordot-int":
            k = rng.randint(0, 2)
            com = [rng.randint(1, 4) for _ in range(k)]
            s0 = [rng.randint(1, 4) for _ in range(rng.randint(0, 2))] + com
            s1 = com + [rng.randint(1, 4) for _ in range(rng.randint(0, 2))]
            axes = k
            call = lambda m, x, y: m.tensordot(x, y, axes=k)
        elif kind == "vecdot":
            nd = rng.randint(1, 3)
            s0 = [rng.randint(1, 4) for _ in range(nd)]
            s1 = list(s0)
            ax = rng.randrange(-nd, nd)
            axes = ax
            call = lambda m, x, y: m.vecdot(x, y, axis=ax) if m is not np else np.sum(x * y, axis=ax)
        else:
            b = [rng.randint(1, 3) for _ in range(rng.randint(0, 2))]
            i, j, l = rng.randint(1, 4), rng.randint(1, 4), rng.randint(1, 4)
            s0, s1 = b + [i, j], b + [j, l]
            axes = None
            call = lambda m, x, y: m.matmul(x, y)
        if not s0 or not s1:
            continue
        an = np.arange(int(np.prod(s0)), dtype="float64").reshape(s0) % 7 - 3
        bn = (np.arange(int(np.prod(s1)), dtype="float64").reshape(s1) * 3) % 5 - 2
        try:
            want = np.asarray(call(np, an, bn))
        except Exception:
            continue
        c0, c1 = G.gen_chunks(rng, tuple(s0)), G.gen_chunks(rng, tuple(s1))
        desc = {"contraction": kind, "shapes": [s0, s1], "chunks": [list(c0), list(c1)], "axes": axes}
        part.evaluations += 1
        part.count("contraction:" + kind)
        try:
            with warnings.catch_warnings():
                warnings.simplefilter("ignore")
                got = np.asarray(call(xp, xp.asarray(an, chunks=c0, spec=spec), xp.asarray(bn, chunks=c1, spec=spec)).compute(optimize_graph=rng.random() < 0.5))
        except Exception as e:
            part.count("contraction-declined:" + type(e).__name__)
            continue
        part.nt(desc)
        if tuple(got.shape) != tuple(want.shape):
            part.fail("wrong-shape", f"{kind}: cubed shape {got.shape}, NumPy shape {want.shape}", desc)
        elif not G.values_equal(got, want):
            part.fail("wrong-values", f"{kind} axes={axes}: values differ from NumPy", desc)


def run(ctx):
    warnings.filterwarnings("ignore")
    k_keyfunctions(ctx)
    k_strided(ctx)
    pmap(ctx, work, [25] * (ctx.n(300, 10000) // 25), procs=12)
    pmap(ctx, index_sweep, [50] * (ctx.n(600, 12000) // 50), procs=12)
    pmap(ctx, contraction_sweep, [25] * (ctx.n(300, 6000) // 25), procs=12)


def search(ctx):
    pass


def replay(ctx, obj):
    rp = obj.get("replay", obj)
    if rp.get("index_sweep"):
        import cubed
        import cubed.array_api as xp
        d = rp["index_sweep"]
        T = G.ops()
        an = np.arange(int(np.prod(d["shape"])), dtype="float64").reshape(d["shape"]) + 1
        kw = {"idx": d["idx"]}
        want = np.asarray(T["index"][3]([an], kw))
        got = np.asarray(T["index"][2](xp, cubed, [xp.asarray(an, chunks=tuple(d["chunks"]), spec=cubed.Spec(allowed_mem="200MB"))], kw).compute())
        ok = got.shape == want.shape and G.values_equal(got, want)
        print("index", d["idx"], "equal to NumPy:", ok)
        return 0 if ok else 1
    prog = rp.get("prog")
    if not prog:
        print(json.dumps(obj, indent=1, default=str)[:5000])
        return 0
    r = run_program(prog, executor=rp.get("executor", "adversarial"), optimize_graph=rp.get("optimize_graph", True), check_blocks=False)
    print("phase:", r["phase"], r["exc_type"], r["exc"])
    bad = 0
    if r["phase"] == "ok":
        for got, want in zip(r["results"], r["shadow"]):
            ok = tuple(got.shape) == tuple(np.asarray(want).shape) and G.values_equal(got, want)
            print("equal to NumPy:", ok)
            bad += not ok
    return 1 if bad else 0
