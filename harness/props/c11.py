"""C11 - store/to_zarr fill every target completely, and only inside the requested region."""
from __future__ import annotations

import json
import os
import shutil
import tempfile
import warnings

import numpy as np

from harness.framework import cnatlist, cnatlist2, pmap

LEVEL = "proof"
TRANSLATED_KERNELS = ["_store_array.region_guards"]   # harness/translate.py: the two region refusals of _store_array re-translated from /repo on every run and proved equal to Model.StoreGuard (= negations of Model.StoreRegion.aligned / chunks_ok, Proofs/StoreGuardProofs.v)
RULE = ("calls store/to_zarr with sources {in-memory, computed, rechunked, fused chain}, targets {path, path+group path, existing Zarr "
        "array of equal / other chunking, sharded array}, regions {none, full, chunk-aligned, end-of-axis, misaligned, wrong shape}, "
        "eager and lazy, lists of pairs incl. one source to several targets, after the same lazy source was computed or stored elsewhere before (histories), on the local executors; targets are pre-filled with a "
        "sentinel and read back with plain zarr. K: for region stores the real acceptance decision, enumerated output blocks, key "
        "function and num_tasks vs Model.StoreRegion; for stores into existing arrays the chunk size of the writing tasks vs the model. "
        "non-trivial = accepted call with >=2 tasks or a rejected one; distinct = distinct call description")
ASSUMPTIONS = ["targets are read back with zarr after the call returned (eager) or after cubed.compute of the returned arrays (lazy)"]
TRUSTED = []


def gen_axis(rng):
    tn = rng.randint(1, 14)
    tc = rng.randint(1, tn)
    kind = rng.random()
    nb = (tn + tc - 1) // tc
    if kind < 0.55:          # aligned region
        b0 = rng.randrange(nb)
        b1 = rng.randint(b0 + 1, nb)
        start, stop = b0 * tc, min(b1 * tc, tn)
    elif kind < 0.7:         # whole axis
        start, stop = 0, tn
    else:                    # arbitrary (often misaligned)
        start = rng.randint(0, tn - 1)
        stop = rng.randint(start + 1, tn)
    sn = stop - start
    if rng.random() < 0.06:
        sn = max(1, sn + rng.choice([-1, 1]))      # wrong source shape
    r = rng.random()
    sc = tc if r < 0.6 else rng.randint(1, max(1, sn))
    sc = max(1, min(sc, max(sn, 1))) if r >= 0.6 else sc
    return dict(tn=tn, tc=tc, start=start, stop=stop, sn=sn, sc=sc)


def ra_term(a):
    return f"(RA {a['tn']} {a['tc']} {a['start']} {a['stop']} {a['sn']} {min(a['sc'], max(a['sn'], 1))})"


def region_work(part, n):
    import cubed
    import cubed.array_api as xp
    import zarr
    from cubed.primitive.blockwise import ChunkKey

    for _ in range(n):
        nd = part.rng.choice([1, 1, 2, 2, 3])
        axes = [gen_axis(part.rng) for _ in range(nd)]
        tshape = tuple(a["tn"] for a in axes)
        tchunks = tuple(a["tc"] for a in axes)
        sshape = tuple(a["sn"] for a in axes)
        schunks = tuple(min(a["sc"], max(a["sn"], 1)) for a in axes)
        region = tuple(slice(a["start"], a["stop"]) for a in axes)
        if part.rng.random() < 0.15:
            region = tuple(slice(None if (s.start == 0 and part.rng.random() < 0.5) else s.start,
                                 None if (s.stop == t and part.rng.random() < 0.5) else s.stop) for s, t in zip(region, tshape))
        data = np.arange(int(np.prod(sshape)), dtype="int64").reshape(sshape) + 1
        spec = cubed.Spec(allowed_mem="200MB")
        kind = part.rng.choice(["memory", "computed", "fused"])
        src = xp.asarray(data, chunks=schunks, spec=spec)
        if kind == "computed":
            src = src + 0
        elif kind == "fused":
            src = xp.negative(xp.negative(src + 0))
        target = zarr.create_array(store=zarr.storage.MemoryStore(), shape=tshape, dtype="int64", chunks=tchunks, fill_value=0)
        target[...] = -7
        desc = {"target_shape": tshape, "target_chunks": tchunks, "region": [(s.start, s.stop) for s in region],
                "source_shape": sshape, "source_chunks": schunks, "source_kind": kind}
        part.evaluations += 1
        axt = "[" + "; ".join(ra_term(a) for a in axes) + "]"
        try:
            with warnings.catch_warnings():
                warnings.simplefilter("ignore")
                (lazy,) = cubed.store(src, target, regions=region, compute=False)
            accepted = True
        except ValueError:
            accepted = False
        except Exception as e:
            part.fail("region-store-incidental-exception", f"{type(e).__name__}: {e}", desc)
            continue
        full = all((s.start in (None, 0)) and (s.stop in (None, t)) for s, t in zip(region, tshape))
        if full and all(s.start is None and s.stop is None for s in region):
            continue   # treated as a whole-array store by the code (covered by whole_work)
        expr = f"sres_eqb (region_accepts {axt}) {'Accept' if accepted else 'RejectValue'}"
        if accepted:
            prod_name = next(iter(lazy._plan.dag.predecessors(lazy.name)))
            pop = lazy._plan.dag.nodes[prod_name]["primitive_op"]
            blocks = [list(b) for b in pop.pipeline.mappable]
            expr += f" && natlist2_eqb (out_blocks {axt}) {cnatlist2(blocks)} && Nat.eqb (region_num_tasks {axt}) {int(pop.num_tasks)}"
            kf = pop.pipeline.config.back_key_function
            for b in blocks[:6]:
                fa = kf(ChunkKey(lazy.name, tuple(b)))
                expr += f" && natlist_eqb (region_key {axt} {cnatlist(b)}) {cnatlist(fa.args[0].coords)}"
            if len(blocks) != pop.num_tasks:
                part.fail("region-num-tasks", f"num_tasks={pop.num_tasks} but {len(blocks)} output blocks are enumerated", desc)
            part.count("region-accepted")
            if len(blocks) >= 2:
                part.nt(desc)
        else:
            part.count("region-rejected")
            part.nt(desc)
        part.case("region", {"expr": expr, "desc": desc, "show": f"(region_accepts {axt}, out_blocks {axt})"})
        part.sample(desc, limit=1)
        # O: sentinel check
        before = target[...].copy()
        if not accepted:
            if not np.array_equal(target[...], before) or (target[...] != -7).any():
                part.fail("rejected-store-wrote", "a rejected store modified the target", desc)
            continue
        exname = part.rng.choice(["single-threaded", "threads"])
        from cubed.runtime.create import create_executor
        try:
            with warnings.catch_warnings():
                warnings.simplefilter("ignore")
                cubed.compute(lazy, executor=create_executor(exname), _return_in_memory_array=False)
        except Exception as e:
            part.fail("accepted-region-store-failed", f"{exname}: {type(e).__name__}: {e}", desc)
            continue
        after = target[...]
        exp = before.copy()
        exp[region] = data if kind != "fused" else data
        if not np.array_equal(after, exp):
            inside_ok = np.array_equal(after[region], data)
            part.fail("region-store-wrong-contents", f"{exname}: target differs from expectation (inside region ok: {inside_ok})", desc)


def whole_work(part, n):
    """store / to_zarr without region into paths, existing arrays of equal/other chunking, sharded arrays; lists with repeats."""
    import cubed
    import cubed.array_api as xp
    import zarr
    from cubed.runtime.create import create_executor

    for _ in range(n):
        nd = part.rng.choice([1, 2, 2])
        shape = tuple(part.rng.randint(1, 12) for _ in range(nd))
        schunks = tuple(part.rng.randint(1, s) for s in shape)
        data = np.arange(int(np.prod(shape)), dtype="float64").reshape(shape) + 1
        spec = cubed.Spec(allowed_mem="200MB")
        kind = part.rng.choice(["memory", "computed", "rechunked", "fused"])
        src = xp.asarray(data, chunks=schunks, spec=spec)
        if kind == "computed":
            src = src + 0
        elif kind == "rechunked":
            src = (src + 0).rechunk(tuple(part.rng.randint(1, s) for s in shape))
        elif kind == "fused":
            src = xp.negative(xp.negative(src + 0))
        npairs = part.rng.choice([1, 1, 2, 3])
        tmp = tempfile.mkdtemp(prefix="c11_", dir="/dev/shm" if os.path.isdir("/dev/shm") else None)
        try:
            targets, readers, kinds = [], [], []
            for i in range(npairs):
                tk = part.rng.choice(["path", "existing-same", "existing-other", "sharded", "memory-existing"])
                kinds.append(tk)
                if tk == "path":
                    p = os.path.join(tmp, f"t{i}.zarr")
                    targets.append(p)
                    readers.append(lambda p=p: zarr.open_array(p)[...])
                else:
                    tchunks = tuple(src.chunksize) if tk == "existing-same" else tuple(part.rng.randint(1, s) for s in shape)
                    kw = {}
                    if tk == "sharded":
                        inner = tuple(part.rng.randint(1, c) for c in tchunks)
                        inner = tuple(next(d for d in range(c, 0, -1) if tc % d == 0 and d <= c) for c, tc in zip(inner, tchunks))
                        kw = dict(shards=tchunks, chunks=inner)
                    else:
                        kw = dict(chunks=tchunks)
                    st = zarr.storage.MemoryStore() if tk == "memory-existing" else zarr.storage.LocalStore(os.path.join(tmp, f"t{i}"))
                    za = zarr.create_array(store=st, shape=shape, dtype="float64", fill_value=0, **kw)
                    za[...] = -7
                    targets.append(za)
                    readers.append(lambda za=za: za[...])
            sources = [src] * npairs
            lazy_mode = part.rng.random() < 0.4
            exname = part.rng.choice(["single-threaded", "threads", "threads"])
            # the same lazy array may have been computed (or stored elsewhere) before this store: a history, not only a call
            before_store = part.rng.choice(["nothing", "nothing", "computed-before", "stored-elsewhere-before"]) if kind != "memory" else "nothing"
            desc = {"shape": shape, "source_chunks": schunks, "source_kind": kind, "targets": kinds, "lazy": lazy_mode, "executor": exname,
                    "before_store": before_store}
            part.count("history:" + before_store)
            try:
                with warnings.catch_warnings():
                    warnings.simplefilter("ignore")
                    if before_store == "computed-before":
                        if not np.array_equal(np.asarray(src.compute(executor=create_executor(exname))), data):
                            part.fail("target-wrong-contents", "the source itself computes to a wrong value before the store", desc)
                    elif before_store == "stored-elsewhere-before":
                        cubed.to_zarr(src, os.path.join(tmp, "elsewhere.zarr"), executor=create_executor(exname))
            except (ValueError, NotImplementedError):
                continue
            part.evaluations += 1
            try:
                with warnings.catch_warnings():
                    warnings.simplefilter("ignore")
                    if npairs == 1 and part.rng.random() < 0.5 and kinds[0] == "path":
                        if lazy_mode:
                            r = cubed.to_zarr(src, targets[0], compute=False)
                            cubed.compute(r, executor=create_executor(exname), _return_in_memory_array=False)
                        else:
                            cubed.to_zarr(src, targets[0], executor=create_executor(exname))
                        desc["api"] = "to_zarr"
                    elif lazy_mode:
                        rs = cubed.store(sources if npairs > 1 else src, targets if npairs > 1 else targets[0], compute=False)
                        cubed.compute(*rs, executor=create_executor(exname), _return_in_memory_array=False)
                    else:
                        cubed.store(sources if npairs > 1 else src, targets if npairs > 1 else targets[0], executor=create_executor(exname))
            except (ValueError, NotImplementedError) as e:
                part.count("whole-declined:" + type(e).__name__)
                continue
            except Exception as e:
                part.fail("store-failed", f"{type(e).__name__}: {e}", desc)
                continue
            part.count("whole-stored")
            if npairs > 1 or kind != "memory":
                part.nt(desc)
            part.sample(desc, limit=1)
            for i, rd in enumerate(readers):
                try:
                    got = rd()
                except Exception as e:
                    part.fail("target-not-written", f"target {i} ({kinds[i]}) cannot be read back: {type(e).__name__}", desc)
                    continue
                if not np.array_equal(got, data):
                    part.fail("target-wrong-contents", f"target {i} ({kinds[i]}) does not hold the source values after the store", desc)
            if before_store == "stored-elsewhere-before":
                try:
                    if not np.array_equal(zarr.open_array(os.path.join(tmp, "elsewhere.zarr"))[...], data):
                        part.fail("earlier-target-changed", "a target filled by an earlier store no longer holds the source values", desc)
                except Exception as e:
                    part.fail("earlier-target-changed", f"the target of the earlier store cannot be read back: {type(e).__name__}", desc)
        finally:
            shutil.rmtree(tmp, ignore_errors=True)


def run(ctx):
    warnings.filterwarnings("ignore")
    cases = pmap(ctx, region_work, [20] * (ctx.n(240, 6000) // 20), procs=12)
    ctx.corr("region_store", "Model.Util Model.Geometry Model.StoreRegion", cases.get("region", []), chunk=200)
    pmap(ctx, whole_work, [10] * (ctx.n(120, 3000) // 10), procs=12)


def search(ctx):
    pass


def replay(ctx, obj):
    print(json.dumps(obj, indent=1, default=str)[:4000])
    return 0
