"""C12 - declared shape/dtype/chunks are truthful; written blocks match their chunk shape."""
from __future__ import annotations

import json
import warnings

import numpy as np

from harness import gen_programs as G
from harness.framework import pmap
from harness.progrun import run_program

LEVEL = "proof"
TRANSLATED_KERNELS = ["_check_regular_chunks", "to_chunksize"]   # harness/translate.py: re-translated from /repo on every run and proved equal to Model.Regular
RULE = ("generated programs (all op families incl. multi-output unstack, arg-reductions with structured intermediates, qr/svd in the "
        "linalg scenarios) run on the adversarial executor with every op's block function wrapped: the shape of every block a task "
        "hands to Zarr (every task, every output, intermediate and fused ops) must equal the chunk region it is written into; the "
        "shape / dtype / chunks an array reports before compute must equal those of the computed result and of the backing Zarr "
        "array. K: the accumulation dtype of sum/prod/cumulative ops for all 13 dtypes vs Model.ShapeSem.upcast (exhaustive); "
        "declared chunks of reductions vs Model.OpsKF/ShapeSem. non-trivial = program with a reduction, multi-output or "
        "shape-changing op; distinct = distinct program")
ASSUMPTIONS = ["Zarr would broadcast or reject a block of the wrong shape; the wrapper observes the block before it is written"]
TRUSTED = ["harness/translate.py (fail-closed Python-ast -> Gallina translator; lengths and chunk sizes are nat, no subtraction occurs)", "function wrapper injected through the adversarial executor (dataclasses.replace of the BlockwiseSpec function)"]

DT_CODES = {"bool": 0, "int8": 1, "int16": 2, "int32": 3, "int64": 4, "uint8": 5, "uint16": 6, "uint32": 7, "uint64": 8,
            "float32": 9, "float64": 10, "complex64": 11, "complex128": 12}
DT_TERMS = ["Bool", "I8", "I16", "I32", "I64", "U8", "U16", "U32", "U64", "F32", "F64", "C64", "C128"]


def k_dtypes(ctx):
    import cubed
    import cubed.array_api as xp

    spec = cubed.Spec(allowed_mem="100MB")
    cases = []
    for name, code in DT_CODES.items():
        a = xp.asarray(np.ones((4,), dtype=name), chunks=(2,), spec=spec)
        for fn in ("sum", "prod", "cumulative_sum", "cumulative_prod"):
            if name == "bool" and fn.startswith("cumulative"):
                continue
            ctx.evaluations += 1
            try:
                with warnings.catch_warnings():
                    warnings.simplefilter("ignore")
                    y = getattr(xp, fn)(a, axis=0) if fn.startswith("cumulative") else getattr(xp, fn)(a)
            except TypeError:
                continue
            got = DT_CODES[str(y.dtype)]
            cases.append({"expr": f"Nat.eqb (dt_code (upcast {DT_TERMS[code]})) {got}", "desc": {"dtype": name, "fn": fn},
                          "show": f"dt_code (upcast {DT_TERMS[code]})"})
            ctx.nt(f"{name}-{fn}")
            # the computed result has the declared dtype
            with warnings.catch_warnings():
                warnings.simplefilter("ignore")
                r = y.compute()
            if str(np.asarray(r).dtype) != str(y.dtype):
                ctx.fail("result-dtype-differs", f"{fn} of {name}: declared {y.dtype}, computed {np.asarray(r).dtype}", {"dtype": name, "fn": fn})
    ctx.corr("accumulation_dtype", "Model.Util Model.OpsKF Model.ShapeSem", cases)


def linalg_scenarios(part):
    import cubed
    import cubed.array_api as xp

    m = part.rng.randint(2, 14)
    n = part.rng.randint(1, min(m, 5))
    rc = part.rng.randint(1, m)
    data = np.random.RandomState(part.rng.randrange(10**6)).rand(m, n)
    spec = cubed.Spec(allowed_mem="200MB")
    kind = part.rng.choice(["qr", "svd"])
    desc = {"linalg": kind, "shape": (m, n), "row_chunk": rc}
    try:
        with warnings.catch_warnings():
            warnings.simplefilter("ignore")
            a = xp.asarray(data, chunks=(rc, n), spec=spec)
            outs = list(xp.linalg.qr(a)) if kind == "qr" else list(xp.linalg.svd(a, full_matrices=False))
    except (ValueError, TypeError, NotImplementedError):
        part.count("linalg-declined")
        return
    from harness.adv_executor import AdvExecutor
    from harness.progrun import BlockShapeChecker

    checker = BlockShapeChecker()
    part.evaluations += 1
    try:
        with warnings.catch_warnings():
            warnings.simplefilter("ignore")
            res = cubed.compute(*outs, executor=AdvExecutor(wrap_function=checker))
    except Exception as e:
        part.fail(f"linalg-run-failed:{kind}", f"{type(e).__name__}: {e}", desc)
        return
    part.count("linalg-ran")
    part.nt(desc)
    for (name, coords, got, want) in checker.bad[:3]:
        part.fail(f"block-shape-mismatch:{kind}", f"{name} task {coords} returned a block of shape {got} for a region of shape {want}", desc)
    for o, r in zip(outs, res):
        if tuple(np.shape(r)) != tuple(o.shape):
            part.fail(f"declared-shape-differs:{kind}", f"declared {o.shape}, computed {np.shape(r)}", desc)
    if kind == "qr":
        q, rr = res
        if not np.allclose(q @ rr, data, atol=1e-8):
            part.fail("qr-not-a-factorisation", "Q @ R differs from the input", desc)
    else:
        u, s, vh = res
        if not np.allclose((u * s) @ vh, data, atol=1e-8):
            part.fail("svd-not-a-factorisation", "U S Vh differs from the input", desc)


def work(part, n):
    import cubed

    for i in range(n):
        if i % 6 == 5:
            linalg_scenarios(part)
            continue
        prog = G.gen_pattern_program(part.rng) if part.rng.random() < 0.2 else G.gen_program(part.rng, maxlen=8)
        og = part.rng.random() < 0.5
        r = run_program(prog, optimize_graph=og, check_blocks=True)
        part.evaluations += 1
        desc = {"prog": prog, "optimize_graph": og}
        if r["phase"] not in ("ok", "execute"):
            continue
        for (name, coords, got, want) in r["block_shape_errors"][:3]:
            part.fail("block-shape-mismatch", f"{name} task {coords} returned a block of shape {got} for a chunk region of shape {want}", desc)
        if r["phase"] != "ok":
            continue
        part.count("programs-checked")
        part.count("blocks-checked", r["blocks_checked"])
        ops = {s["op"] for s in prog["stmts"]}
        if ops & {"r_sum", "r_prod", "r_max", "r_min", "r_mean", "argmax", "unstack_pick", "reshape", "index", "concat", "stack", "repeat", "pad", "cumulative_sum"}:
            part.nt(desc)
        part.sample({"stmts": prog["stmts"][:3]}, limit=1)
        env = r["env"]
        for o, (dshape, ddtype, dchunks), res in zip(prog["outs"], r["declared"], r["results"]):
            arr = env[o]
            if tuple(res.shape) != dshape:
                part.fail("declared-shape-differs", f"{o}: declared shape {dshape}, computed {tuple(res.shape)}", desc)
            if str(res.dtype) != ddtype:
                part.fail("declared-dtype-differs", f"{o}: declared dtype {ddtype}, computed {res.dtype}", desc)
            if tuple(sum(c) for c in dchunks) != dshape:
                part.fail("chunks-do-not-sum-to-shape", f"{o}: chunks {dchunks} vs shape {dshape}", desc)
            try:
                za = arr._zarray.open() if hasattr(arr._zarray, "open") else arr._zarray
                zshape = tuple(za.shape)
                if zshape != dshape:
                    part.fail("zarr-shape-differs", f"{o}: backing Zarr array has shape {zshape}, declared {dshape}", desc)
                if hasattr(za, "dtype") and str(za.dtype) != ddtype:
                    part.fail("zarr-dtype-differs", f"{o}: backing Zarr array has dtype {za.dtype}, declared {ddtype}", desc)
                try:
                    zc = tuple(za.chunks)
                    from cubed.utils import normalize_chunks
                    if len(dshape) > 0 and 0 not in dshape and normalize_chunks(zc, shape=zshape, dtype=za.dtype) != dchunks:
                        part.fail("zarr-chunks-differ", f"{o}: backing Zarr array has chunks {zc}, declared {dchunks}", desc)
                except NotImplementedError:
                    pass
            except Exception:
                pass


def k_groupby(ctx):
    """K: the real _get_chunks_for_groups and the chunks groupby_blockwise declares, and the (start_group, num_groups, labels) every
    task of a real groupby_blockwise hands to its block function, vs Model.GroupBy"""
    import cubed
    import cubed.array_api as xp
    from cubed.core.groupby import _get_chunks_for_groups, groupby_blockwise

    from harness.framework import cnat, cnatlist

    r = ctx.rng
    spec = cubed.Spec(allowed_mem="200MB")
    cases = []
    for _ in range(ctx.n(60, 1200)):
        n = r.randint(1, 14)
        G = r.randint(1, 8)
        labels = sorted(r.randrange(G) for _ in range(n))          # sorted, possibly with empty groups
        c = r.randint(1, n)
        nc = -(-n // c)
        newchunks, gpc = _get_chunks_for_groups(nc, np.asarray(labels), G)
        desc = {"labels": labels, "num_groups": G, "num_chunks": nc}
        ctx.evaluations += 1
        seen = []

        def f(arr, by, axis, start_group, num_groups):
            seen.append((int(start_group), int(num_groups), [int(v) for v in by]))
            return np.zeros((num_groups,) + tuple(arr.shape[1:]))

        try:
            with warnings.catch_warnings():
                warnings.simplefilter("ignore")
                x = xp.asarray(np.ones((n, 2)), chunks=(c, 2), spec=spec)
                y = groupby_blockwise(x, np.asarray(labels), func=f, axis=0, dtype=np.float64, num_groups=G)
                declared = [int(v) for v in y.chunks[0]]
                y.compute()
        except Exception as e:
            ctx.count("groupby-declined:" + type(e).__name__)
            continue
        seen.sort()
        nout = f"(num_out_chunks (groups_per_chunk {nc} {G}) {G})"
        want = "[" + "; ".join(f"({sg}, {ng}, {cnatlist(by)})" for sg, ng, by in seen) + "]"
        model_tasks = f"(map (fun j => (start_group {nc} {G} j, groups_in_chunk {nc} {G} j, read_labels {nc} {cnatlist(labels)} {G} j)) (seq 0 {nout}))"
        cases.append({"expr": f"natlist_eqb (newchunks {nc} {cnatlist(labels)} {G}) {cnatlist([int(v) for v in newchunks])} && "
                              f"Nat.eqb (groups_per_chunk {nc} {G}) {int(gpc)} && "
                              f"natlist_eqb (map (groups_in_chunk {nc} {G}) (seq 0 {nout})) {cnatlist(declared)} && "
                              f"list_eqb (pair_eqb (pair_eqb Nat.eqb Nat.eqb) natlist_eqb) {model_tasks} {want}",
                      "desc": desc, "show": f"(newchunks {nc} {cnatlist(labels)} {G}, {model_tasks})"})
        if len(declared) >= 2:
            ctx.nt(("groupby", n, G, nc))
    ctx.corr("groupby_chunks_and_task_arguments", "Model.Util Model.Geometry Model.GroupBy", cases, chunk=200)


def run(ctx):
    warnings.filterwarnings("ignore")
    k_dtypes(ctx)
    k_groupby(ctx)
    pmap(ctx, work, [24] * (ctx.n(288, 9600) // 24), procs=12)


def search(ctx):
    pass


def replay(ctx, obj):
    rp = obj.get("replay", obj)
    prog = rp.get("prog")
    if not prog:
        print(json.dumps(obj, indent=1, default=str)[:5000])
        return 0
    r = run_program(prog, optimize_graph=rp.get("optimize_graph", True), check_blocks=True)
    print("phase:", r["phase"], r["exc_type"], r["exc"], "block shape errors:", r["block_shape_errors"][:5])
    return 1 if r["block_shape_errors"] else 0
