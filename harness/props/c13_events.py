"""Events part of C13 (also used by C07): real runs with a recording callback."""
from __future__ import annotations

from harness import gen_programs as G
from harness.framework import cnatlist, pmap
from harness.runs import pairs_term, pick_config, run_with_events, trace_term


def work(part, n):
    k = 0
    while k < n:
        prog = G.gen_program(part.rng, nstmts=part.rng.randint(1, 6), allow_zero=False, maxlen=8)
        exname, kw = pick_config(part.rng, allow_processes=(part.tier == "thorough" or part.rng.random() < 0.08))
        og = part.rng.random() < 0.6
        desc = {"prog": prog, "executor": exname, "kwargs": kw, "optimize_graph": og}
        try:
            r = run_with_events(prog, exname, kw, og)
        except Exception:
            continue      # refusals / mid-run failures: C17
        k += 1
        part.evaluations += 1
        nt = sorted((i, o["num_tasks"]) for i, o in r["ops"].items())
        part.case("events", {"expr": f"events_ok {pairs_term(nt)} {trace_term(r['events'])}", "desc": desc,
                             "show": f"map (fun p => (fst p, op_ok (fst p) (snd p) {trace_term(r['events'][1:-1])})) {pairs_term(nt)}"})
        part.count("executor:" + exname)
        part.count("parallel-arrays" if kw.get("compute_arrays_in_parallel") else "sequential-arrays")
        part.count("optimized" if og else "unoptimized")
        if len(nt) >= 3 and any(c >= 2 for _, c in nt):
            part.nt(desc)
        part.sample({"ops": nt, "events": r["events"][:12], **{k2: desc[k2] for k2 in ("executor", "kwargs")}}, limit=1)
        # direct oracle ---------------------------------------------------------------------
        ev = r["events"]
        for i, o in r["ops"].items():
            te = sum(1 for e in ev if e == ("TE", i))
            if o["mappable_len"] != o["num_tasks"]:
                part.fail("num-tasks-vs-mappable", f"op {o['name']}: num_tasks={o['num_tasks']} but the mappable has {o['mappable_len']} items", desc)
            if te != o["num_tasks"]:
                part.fail("task-end-count", f"op {o['name']}: {te} task-end events for num_tasks={o['num_tasks']}", desc)
            if sum(1 for e in ev if e == ("OS", i)) != 1 or sum(1 for e in ev if e == ("OE", i)) != 1:
                part.fail("op-start-end-count", f"op {o['name']}: start/end events not exactly once", desc)
        if r["plan"] is not None and r["plan"].num_tasks != sum(o["num_tasks"] for o in r["ops"].values()):
            part.fail("plan-total", f"plan.num_tasks={r['plan'].num_tasks} != sum of op num_tasks", desc)
        if ev[:1] != [("CS",)] or ev[-1:] != [("CE",)] or sum(1 for e in ev if e[0] in ("CS", "CE")) != 2:
            part.fail("compute-start-end", "compute start/end not exactly once at the ends", desc)


def run_events(ctx):
    N = ctx.n(96, 2400)
    per = 8
    cases = pmap(ctx, work, [per] * (N // per), procs=12)
    ctx.corr("callback_events", "Model.Util Model.Events", cases.get("events", []), chunk=200)
