"""Events part of C13 (also used by C07): real runs with a recording callback."""
from __future__ import annotations

from harness import gen_programs as G
from harness.framework import cnatlist, pmap
from harness.runs import pairs_term, pick_config, run_with_events, trace_term


def store_scenario(rng):
    """a lazy store: region store into a larger target (whole chunks, regions ending in the short last chunk), store into an
    existing array of other chunking, to_zarr of a rechunked source; returns (description, builder(spec) -> arrays)"""
    import numpy as np

    nd = rng.choice([1, 2, 2])
    tshape = tuple(rng.randint(3, 11) for _ in range(nd))
    tch = tuple(rng.randint(1, max(1, n // 2)) for n in tshape)
    kind = rng.choice(["region", "region", "existing-other-chunks", "rechunked-to-path"])
    region = None
    if kind == "region":
        region = []
        for n, c in zip(tshape, tch):
            nb = -(-n // c)
            b0 = rng.randrange(nb)
            b1 = nb if rng.random() < 0.5 else rng.randint(b0 + 1, nb)      # often up to the (short) last chunk
            if b1 == nb and nb >= 2 and rng.random() < 0.6:
                b0 = rng.randrange(nb - 1)                                   # ... and over at least two blocks
            region.append((b0 * c, min(b1 * c, n)))
        sshape = tuple(b - a for a, b in region)
    else:
        sshape = tshape
    desc = {"store": kind, "target_shape": tshape, "target_chunks": tch, "region": region}

    def build(spec):
        import cubed
        import cubed.array_api as xp
        import zarr

        data = np.arange(int(np.prod(sshape)), dtype="float64").reshape(sshape) + 1
        if kind == "region":
            src = xp.asarray(data, chunks=tch, spec=spec) + 0
            za = zarr.create_array(store=zarr.storage.MemoryStore(), shape=tshape, dtype="float64", chunks=tch, fill_value=0)
            return cubed.store(src, za, regions=tuple(slice(a, b) for a, b in region), compute=False)
        if kind == "existing-other-chunks":
            src = xp.asarray(data, chunks=tuple(rng.randint(1, n) for n in sshape), spec=spec) + 0
            za = zarr.create_array(store=zarr.storage.MemoryStore(), shape=tshape, dtype="float64", chunks=tch, fill_value=0)
            return cubed.store(src, za, compute=False)
        src = (xp.asarray(data, chunks=tch, spec=spec) + 0).rechunk(tuple(rng.randint(1, n) for n in sshape))
        return [cubed.to_zarr(src, zarr.storage.MemoryStore(), compute=False)]

    return desc, build


def work(part, n):
    k = 0
    tries = 0
    while k < n and tries < 10 * n:
        tries += 1
        exname, kw = pick_config(part.rng, allow_processes=(part.tier == "thorough" or part.rng.random() < 0.08))
        og = part.rng.random() < 0.6
        if part.rng.random() < 0.3:
            sdesc, build = store_scenario(part.rng)
            if exname == "processes":
                exname = "threads"          # the in-memory targets of these scenarios do not survive a process boundary
            prog = None
            desc = {**sdesc, "executor": exname, "kwargs": kw, "optimize_graph": og}
            part.count("scenario:store-" + sdesc["store"])
        else:
            build = None
            prog = G.gen_program(part.rng, nstmts=part.rng.randint(1, 6), allow_zero=False, maxlen=8)
            desc = {"prog": prog, "executor": exname, "kwargs": kw, "optimize_graph": og}
        try:
            r = run_with_events(prog, exname, kw, og, prebuilt=build)
        except Exception:
            continue      # refusals / mid-run failures: C17
        k += 1
        part.evaluations += 1
        nt = sorted((i, o["num_tasks"]) for i, o in r["ops"].items())
        part.case("events", {"expr": f"events_ok {pairs_term(nt)} {trace_term(r['events'])}", "desc": desc,
                             "show": f"map (fun p => (fst p, op_ok (fst p) (snd p) {trace_term(r['events'][1:-1])})) {pairs_term(nt)}"})
        part.count("executor:" + exname)
        part.count("parallel-arrays" if kw.get("compute_arrays_in_parallel") else "sequential-arrays")
        part.count("optimized" if og else "unoptimized")
        if len(nt) >= 3 and any(c >= 2 for _, c in nt):
            part.nt(desc)
        part.sample({"ops": nt, "events": r["events"][:12], **{k2: desc[k2] for k2 in ("executor", "kwargs")}}, limit=1)
        # direct oracle ---------------------------------------------------------------------
        ev = r["events"]
        for i, o in r["ops"].items():
            te = sum(1 for e in ev if e == ("TE", i))
            if o["mappable_len"] != o["num_tasks"]:
                part.fail("num-tasks-vs-mappable", f"op {o['name']}: num_tasks={o['num_tasks']} but the mappable has {o['mappable_len']} items", desc)
            if te != o["num_tasks"]:
                part.fail("task-end-count", f"op {o['name']}: {te} task-end events for num_tasks={o['num_tasks']}", desc)
            if sum(1 for e in ev if e == ("OS", i)) != 1 or sum(1 for e in ev if e == ("OE", i)) != 1:
                part.fail("op-start-end-count", f"op {o['name']}: start/end events not exactly once", desc)
        if r["plan"] is not None and r["plan"].num_tasks != sum(o["num_tasks"] for o in r["ops"].values()):
            part.fail("plan-total", f"plan.num_tasks={r['plan'].num_tasks} != sum of op num_tasks", desc)
        if ev[:1] != [("CS",)] or ev[-1:] != [("CE",)] or sum(1 for e in ev if e[0] in ("CS", "CE")) != 2:
            part.fail("compute-start-end", "compute start/end not exactly once at the ends", desc)


def run_events(ctx):
    N = ctx.n(96, 2400)
    per = 8
    cases = pmap(ctx, work, [per] * (N // per), procs=12)
    ctx.corr("callback_events", "Model.Util Model.Events", cases.get("events", []), chunk=200)
