"""C04 - over-budget plans are refused before anything runs; fusion stays within budget."""
from __future__ import annotations

import json
import types
import warnings

import numpy as np

from harness import gen_programs as G
from harness.abstract_plan import abstract
from harness.framework import cZ, cZlist, pmap

LEVEL = "proof"
TRANSLATED_KERNELS = ["calculate_projected_mem", "MemoryModeller.allocate", "MemoryModeller.free", "peak_projected_mem",
                      "is_fuse_candidate", "can_fuse_primitive_ops", "can_fuse_multiple_primitive_ops", "fuse_multiple.fields",
                      "Plan._find_ops_exceeding_memory", "FinalizedPlan.validate", "admission.wiring"]   # harness/translate.py: re-translated from /repo on every run and proved equal to the model
RULE = ("K: calculate_projected_mem / peak_projected_mem / fuse_multiple.projected_mem / _find_ops_exceeding_memory on generated "
        "integers and on real finalized plans vs Model.Memory; O: for generated programs the admission boundary is probed at "
        "allowed_mem in {M-1, M, M+1} (M = max projected memory of the plan built under that budget) on the three local executors "
        "with a tracing store and a counting executor: refused iff projected > allowed, and nothing written / no task run when refused; "
        "default optimization keeps every op within budget. non-trivial = a boundary probe whose outcome flips between M-1 and M; "
        "distinct = distinct program x budget")
ASSUMPTIONS = ["plans depend on allowed_mem (rechunk stages, fusion decisions): M is re-read for every budget probed"]
TRUSTED = ["harness/translate.py (fail-closed Python-ast -> Gallina translator for calculate_projected_mem; Python int = Z, // and % = Z.div / Z.modulo, ceil(a / b) = cdiv on positive ints)", "tracing WrapperStore (harness/tracing_store.py) sees every store access of the intermediate store"]


def k_arith(ctx):
    from cubed.primitive.blockwise import peak_projected_mem
    from cubed.primitive.memory import BufferCopies, calculate_projected_mem

    cases = []
    r = ctx.rng
    for _ in range(ctx.n(400, 20000)):
        res = r.choice([0, 0, r.randint(0, 10**9)])
        ins = [r.choice([0, r.randint(1, 10**9), r.randint(1, 1000)]) for _ in range(r.randint(0, 4))]
        op = r.choice([0, r.randint(0, 10**9)])
        out = r.randint(0, 10**9)
        rc, wc = r.choice([(1, 1), (2, 2), (1, 2), (0, 3)])
        real = calculate_projected_mem(res, ins, op, out, BufferCopies(read=rc, write=wc))
        cases.append({"expr": f"Z.eqb (calc_projected {cZ(res)} {cZlist(ins)} {cZ(op)} {cZ(out)} {cZ(rc)} {cZ(wc)}) {cZ(real)}",
                      "desc": dict(reserved=res, inputs=ins, operation=op, output=out, copies=[rc, wc]),
                      "show": f"calc_projected {cZ(res)} {cZlist(ins)} {cZ(op)} {cZ(out)} {cZ(rc)} {cZ(wc)}"})
        ctx.evaluations += 1
    ctx.corr("calculate_projected_mem", "Model.Util Model.Memory", cases)
    cases = []
    for _ in range(ctx.n(400, 20000)):
        ps = []
        for _ in range(r.randint(0, 5)):
            p = r.randint(1, 10**7)
            c = r.choice([0, r.randint(0, p), r.randint(0, 2 * p)])
            ps.append((p, c))
        ops = [types.SimpleNamespace(projected_mem=p, target_array=types.SimpleNamespace(chunkmem=c)) for p, c in ps]
        if r.random() < 0.3 and ops:
            ops.insert(r.randrange(len(ops) + 1), None)
        real = peak_projected_mem(ops)
        pt = "[" + "; ".join(f"({cZ(p)}, {cZ(c)})" for p, c in ps) + "]"
        cases.append({"expr": f"Z.eqb (peak_projected {pt}) {cZ(real)}", "desc": {"preds": ps}, "show": f"peak_projected {pt}"})
        ctx.evaluations += 1
        if len(ps) >= 2:
            ctx.nt({"peak": ps})
    ctx.corr("peak_projected_mem", "Model.Util Model.Memory", cases)


class CountingExecutorMixin:
    pass


def probe(part, prog, allowed, reserved, exname, desc):
    """Build prog under Spec(allowed, reserved), read M, run; returns (M, refused, wrote, ran)."""
    import cubed
    from cubed.runtime.create import create_executor

    from harness.tracing_store import Trace, memory_tracing_store

    trace = Trace()
    store = memory_tracing_store(trace)
    spec = cubed.Spec(allowed_mem=allowed, reserved_mem=reserved, intermediate_store=store)
    env = G.build(prog, spec)
    outs = [env[o] for o in prog["outs"]]
    plan = cubed.plan(*outs) if hasattr(cubed, "plan") else outs[0].plan()
    M = plan.max_projected_mem
    pairs = []
    for n, d in plan.dag.nodes(data=True):
        if "primitive_op" in d:
            pairs.append((int(d["primitive_op"].projected_mem), int(d["primitive_op"].allowed_mem)))
    ran = []

    class CB(cubed.Callback):
        def on_task_end(self, event):
            ran.append(1)

        def on_operation_start(self, event):
            ran.append(0)

    executor = create_executor(exname)
    refused = False
    err = None
    try:
        cubed.compute(*outs, executor=executor, callbacks=[CB()])
    except ValueError as e:
        if "exceeds allowed_mem" in str(e):
            refused = True
        else:
            err = f"{type(e).__name__}: {e}"
    except Exception as e:
        err = f"{type(e).__name__}: {e}"
    wrote = [ev for ev in trace.events if ev[1] in ("set", "delete")]
    return M, pairs, refused, wrote, ran, err, plan


def work(part, n):
    import cubed

    k = 0
    while k < n:
        prog = G.gen_program(part.rng, nstmts=part.rng.randint(1, 5), allow_zero=False, maxlen=8)
        reserved = part.rng.choice([0, 0, 100, 1000])
        try:
            M0, pairs0, refused0, wrote0, ran0, err0, plan0 = probe(part, prog, 10**9, reserved, "single-threaded", None)
        except Exception:
            continue   # build-time refusals: C17
        if err0 is not None:
            continue   # mid-run failures: C17
        k += 1
        exname = part.rng.choice(["single-threaded", "single-threaded", "threads", "processes"] if part.tier == "thorough"
                                 else ["single-threaded", "single-threaded", "single-threaded", "threads"])
        outcomes = {}
        for A in (M0 - 1, M0, M0 + 1):
            if A <= reserved:
                continue
            desc = {"prog": prog, "allowed_mem": A, "reserved_mem": reserved, "executor": exname}
            try:
                M, pairs, refused, wrote, ran, err, plan = probe(part, prog, A, reserved, exname, desc)
            except (ValueError, NotImplementedError) as e:
                part.count("build-refused-under-small-budget")
                continue
            except Exception as e:
                part.count("build-failed-under-small-budget:" + type(e).__name__)
                continue
            part.evaluations += 1
            outcomes[A] = refused
            # model: admission decision from the (projected, allowed) pairs of the final plan
            pt = "[" + "; ".join(f"({cZ(p)}, {cZ(a)})" for p, a in pairs) + "]"
            part.case("admission", {"expr": f"Bool.eqb (plan_accepted {pt}) {'false' if refused else 'true'} && Z.eqb (max_projected {pt}) {cZ(M)}",
                                    "desc": desc, "show": f"(plan_accepted {pt}, max_projected {pt})"})
            should_refuse = M > A
            if err is not None:
                part.count("run-error-at-boundary")   # C17's business unless it is a memory refusal
                continue
            if refused != should_refuse:
                part.fail("admission-not-exact", f"max_projected_mem={M} allowed_mem={A} but refused={refused}", desc)
            if refused and (wrote or ran):
                part.fail("effects-before-refusal", f"refused plan wrote {len(wrote)} keys / notified {len(ran)} events", desc)
            if any(a != A for _, a in pairs):
                part.fail("budget-not-from-spec", f"ops carry allowed_mem {sorted(set(a for _, a in pairs))} but the spec says {A}", desc)
            part.count("refused" if refused else "accepted")
        if len(set(outcomes.values())) > 1:
            part.nt({"prog": prog, "M0": M0, "reserved": reserved})
            part.count("boundary-flips")
        part.sample({"prog": prog, "M0": M0, "outcomes": {str(a): r for a, r in outcomes.items()}}, limit=1)
        # default optimisation never turns a fitting plan into one that does not fit
        try:
            spec = cubed.Spec(allowed_mem=M0 + part.rng.randint(0, 50), reserved_mem=reserved)
            env = G.build(prog, spec)
            outs = [env[o] for o in prog["outs"]]
            pu = cubed.core.array.plan(*outs, optimize_graph=False)
            po = cubed.core.array.plan(*outs, optimize_graph=True)
            if not pu.exceeds_memory and po.exceeds_memory:
                part.fail("default-fusion-exceeds-budget", f"unoptimized max {pu.max_projected_mem} fits {spec.allowed_mem}, optimized max {po.max_projected_mem} does not",
                          {"prog": prog, "allowed_mem": spec.allowed_mem, "reserved_mem": reserved})
            part.evaluations += 1
        except Exception:
            pass


def opt_work(part, n):
    """The optimizer's memory bookkeeping on real plans: structural correspondence with Model.Dag.optimize (projected_mem of
    every fused op is one of the compared fields) + a direct check of every real fuse_multiple / fuse call."""
    import cubed
    import importlib
    from cubed.core.plan import arrays_to_plan

    from harness.abstract_plan import dag_term, nid, op_order
    from harness.framework import cnatlist
    from harness.props import c02

    opt_mod = importlib.import_module("cubed.core.optimization")
    k = 0
    while k < n:
        prog = G.gen_pattern_program(part.rng) if part.rng.random() < 0.3 else G.gen_program(part.rng, nstmts=part.rng.randint(2, 7), allow_zero=False)
        try:
            env = G.build(prog, cubed.Spec(allowed_mem="500MB"))
        except Exception:
            continue
        k += 1
        outs = [env[o] for o in prog["outs"]]
        plan = arrays_to_plan(*outs)
        dag = plan.dag
        st = c02.settings(part.rng, dag)
        if st["kind"] == "simple":
            st = dict(kind="default", ms=4, mn=10, af=[], nf=[])
        calls = []
        real_fm = opt_mod.fuse_multiple

        def rec(primitive_op, *preds):
            out = real_fm(primitive_op, *preds)
            from cubed.utils import chunk_memory
            # what the predecessors need when run one after the other with their outputs kept (computed here, independently
            # of cubed's modeller): the statement of Coq's fused_op_not_under_reported
            cur = held_peak = 0
            for p in preds:
                if p is None:
                    continue
                cur += int(p.projected_mem)
                held_peak = max(held_peak, cur)
                cur -= int(p.projected_mem) - int(chunk_memory(p.target_array))
            calls.append((int(primitive_op.projected_mem), [int(p.projected_mem) for p in preds if p is not None], int(out.projected_mem),
                          int(primitive_op.allowed_mem), held_peak))
            return out

        opt_mod.fuse_multiple = rec
        try:
            odag = c02.real_optimize(dag, plan.array_names, st)
        except Exception as e:
            part.fail("optimizer-crash", f"{type(e).__name__}: {e}", {"prog": prog, "setting": st})
            continue
        finally:
            opt_mod.fuse_multiple = real_fm
        part.evaluations += 1
        desc = {"prog": prog, "setting": st}
        for opp, preds, fused, allowed, held_peak in calls:
            if fused < opp or any(fused < p for p in preds):
                part.fail("fused-op-under-reports", f"fused op reports {fused} bytes but replaces ops projected at {[opp] + preds}", desc)
            elif fused < held_peak:
                part.fail("fused-op-under-reports", f"fused op reports {fused} bytes but running its predecessors (projected {preds}) one after the other with "
                                                    f"their outputs kept needs {held_peak}", desc)
            if not st["af"] and fused > allowed and opp <= allowed and all(p <= allowed for p in preds):
                part.fail("default-fusion-exceeds-budget", f"fused op needs {fused} > allowed {allowed} although every replaced op fits", desc)
        if calls:
            part.nt(desc)
            part.count("fusions-observed", len(calls))
        ops0, virt0 = abstract(dag)
        ops1, _ = abstract(odag)
        pos = {i: j for j, i in enumerate(o["id"] for o in ops0)}
        ops1s = sorted(ops1, key=lambda o: pos[o["id"]])
        req = [nid(a) for a in plan.array_names]
        cfg = f"(CFG {cnatlist(req)} {st['ms']} {'None' if st['mn'] is None else '(Some %d)' % st['mn']} {cnatlist(st['af'])} {cnatlist(st['nf'])})"
        d0, d1 = dag_term(ops0, virt0), dag_term(ops1s, virt0)
        part.case("optmem", {"expr": f"dag_eqb (optimize unit {cfg} {cnatlist(op_order(dag))} {d0}) {d1}", "desc": desc,
                             "show": f"first_diff (dops unit (optimize unit {cfg} {cnatlist(op_order(dag))} {d0})) (dops unit {d1})"})


def run(ctx):
    warnings.filterwarnings("ignore")
    k_arith(ctx)
    oc = pmap(ctx, opt_work, [16] * (ctx.n(192, 4800) // 16), procs=12)
    ctx.corr("optimizer_projected_mem", "Model.Util Model.Dag Model.DagObs", oc.get("optmem", []), chunk=80)
    N = ctx.n(96, 2400)
    per = 8
    cases = pmap(ctx, work, [per] * (N // per), procs=12)
    ctx.corr("plan_admission", "Model.Util Model.Memory", cases.get("admission", []), chunk=300)


def search(ctx):
    pass


def replay(ctx, obj):
    print(json.dumps(obj, indent=1, default=str)[:4000])
    return 0
