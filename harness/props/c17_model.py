"""K suites of C17: the model's acceptance predicates vs what the real constructors do."""
import warnings

import numpy as np

from harness.framework import cbool, cnatlist, cnatlist2


def run_model(ctx):
    import cubed
    import cubed.array_api as xp

    r = ctx.rng
    spec = cubed.Spec(allowed_mem="200MB")
    cases = []

    def outcome(f):
        """'accept' (built and computed), 'reject' (explicit error at build) - anything else is reported by the oracle"""
        try:
            with warnings.catch_warnings():
                warnings.simplefilter("ignore")
                y = f()
        except (ValueError, TypeError, NotImplementedError, IndexError):
            return "reject", None
        except Exception as e:
            return "incidental:" + type(e).__name__, None
        return "accept", y

    for _ in range(ctx.n(120, 2000)):
        kind = r.choice(["stack", "permute", "tsqr", "scan"])
        ctx.evaluations += 1
        if kind == "stack":
            nd = r.choice([1, 2])
            s0 = tuple(r.randint(1, 5) for _ in range(nd))
            shapes = [s0] + [s0 if r.random() < 0.6 else tuple(r.randint(1, 5) for _ in range(nd)) for _ in range(r.randint(1, 2))]
            arrs = [xp.asarray(np.zeros(s), chunks=tuple(r.randint(1, n) for n in s), spec=spec) for s in shapes]
            o, y = outcome(lambda: xp.stack(arrs, axis=r.randint(0, nd)))
            desc = {"stack": shapes}
            cases.append({"expr": f"Bool.eqb (stack_accepts {cnatlist2(shapes)}) {cbool(o == 'accept')}", "desc": desc, "show": f"stack_accepts {cnatlist2(shapes)}"})
        elif kind == "permute":
            nd = r.choice([1, 2, 3])
            axes = [r.randrange(nd) for _ in range(nd)] if r.random() < 0.5 else r.sample(range(nd), nd)
            a = xp.asarray(np.zeros((2,) * nd), chunks=(r.choice([1, 2]),) * nd, spec=spec)
            o, y = outcome(lambda: xp.permute_dims(a, tuple(axes)))
            desc = {"permute": axes}
            cases.append({"expr": f"Bool.eqb (is_permutation {cnatlist(axes)}) {cbool(o == 'accept')}", "desc": desc, "show": f"is_permutation {cnatlist(axes)}"})
        elif kind == "tsqr":
            m = r.randint(2, 12)
            n = r.randint(1, min(m, 4))
            rc = r.randint(1, m)
            a = xp.asarray(np.random.RandomState(0).rand(m, n), chunks=(rc, n), spec=spec)
            o, y = outcome(lambda: xp.linalg.qr(a))
            rows = [int(c) for c in a.chunks[0]]
            desc = {"qr": (m, n), "row_chunks": rows}
            cases.append({"expr": f"Bool.eqb (tsqr_accepts {cnatlist(rows)} {n}) {cbool(o == 'accept')}", "desc": desc, "show": f"tsqr_accepts {cnatlist(rows)} {n}"})
            if o == "accept":
                # an accepted factorisation must run to the end and reproduce the input (a plan that is accepted and then
                # dies in the middle of execution is exactly what C17 forbids)
                try:
                    with warnings.catch_warnings():
                        warnings.simplefilter("ignore")
                        q, rr = (np.asarray(t.compute()) for t in y)
                    if q.shape[0] != m or not np.allclose(q @ rr, np.random.RandomState(0).rand(m, n)):
                        ctx.fail("accepted-then-wrong:tsqr", f"qr of a {m}x{n} array with row chunks {rows} was accepted but Q@R != A", desc)
                except Exception as e:
                    ctx.fail("accepted-then-failed:tsqr", f"qr of a {m}x{n} array with row chunks {rows} was accepted and failed while running: "
                                                          f"{type(e).__name__}: {str(e)[:120]}", desc)
        else:
            nb = r.choice([1, 2, 3, 5, 6, 7, 10, 11, 15, 25, 26, 30, 50])
            a = xp.asarray(np.zeros((nb,)), chunks=(1,), spec=spec)
            try:
                with warnings.catch_warnings():
                    warnings.simplefilter("ignore")
                    xp.cumulative_sum(a, axis=0)
                o = "accept"
            except AssertionError:
                o = "assertion"
            desc = {"scan_blocks": nb}
            cases.append({"expr": f"Bool.eqb (scan_accepts {nb}) {cbool(o == 'accept')}", "desc": desc, "show": f"scan_accepts {nb}"})
        if o.startswith("incidental"):
            ctx.fail(f"build:{o.split(':')[1]}:{kind}", f"{kind} raised {o}", desc)
        ctx.nt(desc)
    ctx.corr("acceptance_predicates", "Model.Util Model.Keys Model.OpsKF", cases, chunk=300)
