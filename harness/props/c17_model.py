def run_model(ctx):
    pass
