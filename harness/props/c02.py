"""C02 - graph optimization (operation fusion) never changes any computed value."""
from __future__ import annotations

import json
import warnings

import numpy as np

from harness import gen_programs as G
from harness.abstract_plan import abstract, dag_term, nid, op_order
from harness.framework import cnatlist

LEVEL = "proof"
TRANSLATED_KERNELS = ["is_fuse_candidate", "can_fuse_primitive_ops", "can_fuse_multiple_primitive_ops"]   # harness/translate.py: the fusion guards are re-translated from /repo on every run and proved equal to Model.FuseGuard (= Model.Dag on views, Proofs/FuseGuardProofs.v)
RULE = ("random typed array programs (harness/gen_programs.py: chains, diamonds, repeated arguments, reductions, selections, "
        "rechunks, several requested outputs); for each, the real Plan.dag is abstracted into a Model.Dag term, the real "
        "multiple_inputs_optimize_dag is run with drawn max_total_source_arrays / max_total_num_input_blocks / always_fuse / "
        "never_fuse and its result compared with Model.Dag.optimize under networkx's recorded visiting order; oracle: values of "
        "compute(optimize_graph=False) vs compute with each optimizer. non-trivial = the optimizer fused at least one op; "
        "distinct = distinct program+setting")
ASSUMPTIONS = ["networkx.topological_sort returns a topological order (the recorded order is replayed, not predicted)",
               "block functions are deterministic functions of the blocks they are given"]
TRUSTED = ["harness/translate.py (fail-closed Python-ast -> Gallina translator; logging calls have no effect on the result; zip(..., strict=True) over equally long lists)"]


def settings(rng, dag):
    from cubed.core.optimization import (fuse_all_optimize_dag, fuse_only_optimize_dag, multiple_inputs_optimize_dag)

    ops = [n for n in dag.nodes if n.startswith("op-")]
    r = rng.random()
    if r < 0.12:
        return dict(kind="simple", ms=4, mn=10, af=[], nf=[])
    if r < 0.45:
        ms = rng.choice([4, 4, 1, 2, 3, 8])
        mn = rng.choice([10, 10, None, 1, 2, 4, 20])
        return dict(kind="default", ms=ms, mn=mn, af=[], nf=[])
    if r < 0.65:
        return dict(kind="fuse_all", ms=4, mn=10, af=[nid(o) for o in ops], nf=[])
    if r < 0.85:
        only = [o for o in ops if rng.random() < 0.5]
        return dict(kind="fuse_only", ms=4, mn=10, af=[nid(o) for o in only], nf=[nid(o) for o in ops if o not in only])
    af = [o for o in ops if rng.random() < 0.3]
    nf = [o for o in ops if rng.random() < 0.3]
    return dict(kind="mixed", ms=rng.choice([2, 4]), mn=rng.choice([None, 3, 10]), af=[nid(o) for o in af], nf=[nid(o) for o in nf])


def real_optimize(dag, array_names, st):
    from cubed.core.optimization import multiple_inputs_optimize_dag

    if st["kind"] == "simple":
        from cubed.core.optimization import simple_optimize_dag

        return simple_optimize_dag(dag, array_names=array_names)
    kw = dict(array_names=array_names, max_total_source_arrays=st["ms"], max_total_num_input_blocks=st["mn"])
    names = {nid(n): n for n in dag.nodes if n.startswith("op-")}
    if st["kind"] in ("fuse_all", "fuse_only", "mixed"):
        kw["always_fuse"] = [names[i] for i in st["af"]]
        if st["kind"] != "fuse_all":
            kw["never_fuse"] = set(names[i] for i in st["nf"])
    return multiple_inputs_optimize_dag(dag.copy(), **kw)


def opt_function(st):
    from functools import partial

    from cubed.core.optimization import multiple_inputs_optimize_dag

    def f(dag, array_names=None):
        return real_optimize(dag, array_names, st)

    return f


def work(part, nprog):
    import cubed
    from cubed.core.plan import arrays_to_plan

    import zarr
    k = 0
    while k < nprog:
        prog = G.gen_program(part.rng, nstmts=part.rng.randint(2, 7), allow_zero=False)
        pattern = part.rng.random() < 0.25
        if pattern:
            prog = G.gen_pattern_program(part.rng)
        spec = cubed.Spec(allowed_mem="500MB", intermediate_store=zarr.storage.MemoryStore())
        try:
            env = G.build(prog, spec)
        except Exception:
            continue   # refusals and build-time defects are C17's business
        k += 1
        outs = [env[o] for o in prog["outs"]]
        plan = arrays_to_plan(*outs)
        dag = plan.dag
        st = settings(part.rng, dag)
        if pattern and part.rng.random() < 0.4:
            st = dict(kind="simple", ms=4, mn=10, af=[], nf=[])
        ops0, virt0 = abstract(dag)
        order = op_order(dag)
        req = [nid(a) for a in plan.array_names]
        desc = {"prog": prog, "setting": st}
        try:
            odag = real_optimize(dag, plan.array_names, st)
        except Exception as e:
            part.fail("optimizer-crash", f"optimizer raised {type(e).__name__}: {e}", desc)
            continue
        ops1, virt1 = abstract(odag)
        # expected op list in the model's order (original topological order, fused predecessors removed)
        pos = {i: n for n, i in enumerate(o["id"] for o in ops0)}
        ops1s = sorted(ops1, key=lambda o: pos[o["id"]])
        cfg = f"(CFG {cnatlist(req)} {st['ms']} {'None' if st['mn'] is None else '(Some %d)' % st['mn']} {cnatlist(st['af'])} {cnatlist(st['nf'])})"
        d0 = dag_term(ops0, virt0)
        d1 = dag_term(ops1s, virt0)
        if st["kind"] == "simple":
            sorder = [nid(n) for n in dag.nodes() if n.startswith("op-")]
            part.case("opt", {"expr": f"dag_eqb (simple_optimize unit {cnatlist(req)} {cnatlist(sorder)} {d0}) {d1}", "desc": desc,
                              "show": f"first_diff (dops unit (simple_optimize unit {cnatlist(req)} {cnatlist(sorder)} {d0})) (dops unit {d1})"})
        else:
          part.case("opt", {"expr": f"dag_eqb (optimize unit {cfg} {cnatlist(order)} {d0}) {d1}", "desc": desc,
                          "show": f"first_diff (dops unit (optimize unit {cfg} {cnatlist(order)} {d0})) (dops unit {d1})"})
        fused = len(ops1) < len(ops0)
        part.count("setting:" + st["kind"])
        part.count("fused" if fused else "not-fused")
        part.count(f"ops:{min(len(ops0), 9)}")
        if fused:
            part.nt(desc)
        part.sample(desc, limit=1)
        # ---- oracle: values with and without optimization -----------------------------
        part.evaluations += 1
        try:
            # the reference run uses its own build over its own store: a requested array that the
            # optimizer fuses away must not be found in storage left behind by another run
            import zarr
            env_ref = G.build(prog, cubed.Spec(allowed_mem="500MB", intermediate_store=zarr.storage.MemoryStore()))
            ref = cubed.compute(*[env_ref[o] for o in prog["outs"]], optimize_graph=False)
        except Exception:
            part.count("unoptimized-run-failed")   # C17's business
            continue
        shadow = G.shadow_eval(prog)
        for r, o in zip(ref, prog["outs"]):
            if not G.values_equal(r, shadow[o]):
                part.count("unoptimized-differs-from-numpy")   # C01's business
        try:
            opt = cubed.compute(*outs, optimize_graph=True, optimize_function=opt_function(st))
        except ValueError as e:
            if "exceeds allowed_mem" in str(e):
                part.count("refused-after-forced-fusion")
                continue
            part.fail("optimized-run-failed", f"{type(e).__name__}: {e}", desc)
            continue
        except Exception as e:
            part.fail("optimized-run-failed", f"{type(e).__name__}: {e}", desc)
            continue
        for r0, r1, o in zip(ref, opt, prog["outs"]):
            if not (np.asarray(r0).shape == np.asarray(r1).shape and np.array_equal(np.asarray(r0), np.asarray(r1), equal_nan=True)):
                part.fail("optimization-changes-value", f"array {o} differs between optimize_graph=False and optimizer {st['kind']}", desc)
        # every requested array is materialised: open it from storage
        for a in outs:
            try:
                za = a._zarray.open() if hasattr(a._zarray, "open") else a._zarray
                _ = za[...]
            except Exception as e:
                part.fail("requested-array-not-materialized", f"{a.name}: {type(e).__name__}", desc)


def run(ctx):
    from harness.framework import pmap

    N = ctx.n(192, 4800)
    per = 12
    cases = pmap(ctx, work, [per] * (N // per), procs=14)
    ctx.corr("multiple_inputs_optimize_dag", "Model.Util Model.Dag Model.DagObs", cases.get("opt", []), chunk=60)


def search(ctx):
    pass


def replay(ctx, obj):
    print(json.dumps(obj, indent=1, default=str)[:6000])
    return 0
