"""C10 - a lazy array's value is fixed when built; inputs and earlier outputs stay intact."""
from __future__ import annotations

import json
import os
import shutil
import tempfile
import warnings

import numpy as np

from harness.framework import cnatlist, pmap

LEVEL = "proof"
RULE = ("random histories of API calls over a pool of related lazy arrays: derive (elementwise / reduction / index / rechunk of pool "
        "members), compute of any subset (optimised or not, resume or not, different executors), store / to_zarr of any array "
        "(eager or lazy, path or existing array target), recompute, config change; after every step randomly chosen arrays are "
        "computed and compared with a NumPy shadow, inputs (in-memory and Zarr opened for reading) and all earlier store targets "
        "are checksummed. K: the same history is run on the Coq machine Model.Api: which targets hold data after each step and "
        "whether store returned the source itself or a copy. non-trivial = history with a store of an array that has dependants or "
        "was stored before; distinct = distinct history")
ASSUMPTIONS = ["store targets are fresh (never the location of another live array)",
               "resume with a pre-existing fully initialised target is outside the explored space (C09)"]
TRUSTED = []


UNARY = [("negative", lambda xp, a: xp.negative(a), lambda a: -a),
         ("add1", lambda xp, a: a + 1, lambda a: a + 1),
         ("double", lambda xp, a: a * 2, lambda a: a * 2),
         ("sum0", lambda xp, a: xp.sum(a, axis=0, keepdims=True) + xp.zeros_like(a), lambda a: a.sum(axis=0, keepdims=True) + np.zeros_like(a)),
         ("flip", lambda xp, a: xp.flip(a, axis=1), lambda a: np.flip(a, axis=1)),
         ("rechunk", lambda xp, a: a.rechunk((4, 1)), lambda a: a),
         ("T", lambda xp, a: xp.permute_dims(xp.permute_dims(a, (1, 0)), (1, 0)), lambda a: a)]
BINARY = [("add", lambda xp, a, b: a + b, lambda a, b: a + b), ("mul", lambda xp, a, b: a * b, lambda a, b: a * b)]


class History:
    def __init__(self, rng):
        import cubed
        import cubed.array_api as xp
        import zarr

        self.rng = rng
        self.xp = xp
        self.cubed = cubed
        self.tmp = tempfile.mkdtemp(prefix="c10_", dir="/dev/shm" if os.path.isdir("/dev/shm") else None)
        self.spec = cubed.Spec(work_dir=os.path.join(self.tmp, "work"), allowed_mem="200MB")
        self.arrays = []        # cubed arrays (model ids = positions)
        self.shadow = []
        self.model_calls = []   # Coq call terms
        self.targets = []       # (loc, reader, expected_written bool, shadow)
        self.next_loc = 0
        self.inputs = []        # (kind, original data, reader)
        self.steps = []
        # inputs: one in-memory, one Zarr opened for reading
        d0 = np.arange(16.0).reshape(4, 4) + 1
        self.add_input(xp.asarray(d0, chunks=(2, 2), spec=self.spec), d0, ("memory", d0.copy(), lambda: d0))
        zp = os.path.join(self.tmp, "input.zarr")
        d1 = (np.arange(16.0).reshape(4, 4) * 3) % 7
        za = zarr.create_array(store=zp, shape=(4, 4), dtype="float64", chunks=(2, 2))
        za[...] = d1
        self.add_input(cubed.from_zarr(zp, spec=self.spec), d1, ("zarr", d1.copy(), lambda: zarr.open_array(zp, mode="r")[...]))

    def add_input(self, a, data, rec):
        self.arrays.append(a)
        self.shadow.append(data)
        self.inputs.append(rec)
        self.next_loc += 1

    def close(self):
        shutil.rmtree(self.tmp, ignore_errors=True)

    # ---- calls --------------------------------------------------------------------------------------
    def derive(self):
        r = self.rng
        if r.random() < 0.7 or len(self.arrays) < 2:
            i = r.randrange(len(self.arrays))
            nm, cf, nf = r.choice(UNARY)
            a = cf(self.xp, self.arrays[i])
            s = nf(self.shadow[i])
            args = [i]
        else:
            i, j = r.randrange(len(self.arrays)), r.randrange(len(self.arrays))
            nm, cf, nf = r.choice(BINARY)
            a = cf(self.xp, self.arrays[i], self.arrays[j])
            s = nf(self.shadow[i], self.shadow[j])
            args = [i, j]
        self.arrays.append(a)
        self.shadow.append(s)
        self.model_calls.append(f"Derive {len(self.arrays)} {cnatlist(args)}")
        self.next_loc += 1
        self.steps.append(("derive", nm, args))

    def compute(self):
        r = self.rng
        ids = sorted(r.sample(range(len(self.arrays)), r.randint(1, min(3, len(self.arrays)))))
        kw = dict(optimize_graph=r.random() < 0.6)
        if r.random() < 0.2:
            kw["resume"] = True
        exname = r.choice(["single-threaded", "threads"])
        from cubed.runtime.create import create_executor
        res = self.cubed.compute(*[self.arrays[i] for i in ids], executor=create_executor(exname), **kw)
        self.steps.append(("compute", ids, kw, exname))
        self.model_calls.append(f"Compute {cnatlist(ids)} []")
        return ids, res

    def store(self):
        import zarr

        r = self.rng
        i = r.randrange(len(self.arrays))
        eager = r.random() < 0.5
        kind = r.choice(["path", "path", "existing"])
        loc = 1000 + len(self.targets)
        if kind == "path":
            p = os.path.join(self.tmp, f"target{loc}.zarr")
            target = p
            reader = lambda p=p: zarr.open_array(p, mode="r")[...] if os.path.exists(p) else None
        else:
            za = zarr.create_array(store=os.path.join(self.tmp, f"target{loc}.zarr"), shape=(4, 4), dtype="float64",
                                   chunks=tuple(self.arrays[i].chunksize), fill_value=-123.0)
            target = za
            reader = lambda za=za: (za[...] if (za.nchunks_initialized == za.nchunks) else None)
        src = self.arrays[i]
        use_to_zarr = kind == "path" and r.random() < 0.5
        with warnings.catch_warnings():
            warnings.simplefilter("ignore")
            if eager:
                if use_to_zarr:
                    self.cubed.to_zarr(src, target)
                else:
                    self.cubed.store(src, target)
                ret = None
            else:
                ret = self.cubed.to_zarr(src, target, compute=False) if use_to_zarr else self.cubed.store(src, target, compute=False)[0]
        self.steps.append(("store", i, "eager" if eager else "lazy", kind))
        if eager:
            self.model_calls.append(f"StoreEager {i} {loc} []")
        else:
            self.model_calls.append(f"StoreLazy {i} {loc}")
        rec = {"loc": loc, "reader": reader, "shadow": self.shadow[i], "src": i, "eager": eager, "returned_same": None}
        self.targets.append(rec)
        if ret is not None:
            same = ret is src
            rec["returned_same"] = same
            if not same:
                self.arrays.append(ret)
                self.shadow.append(self.shadow[i])
        elif eager:
            # eager store returns nothing; the model may have added a copy cell: mirror it with a placeholder array
            pass
        return rec

    def config_change(self):
        self.steps.append(("config",))
        self.model_calls.append("ConfigChange")


def run_history(part, length):
    import cubed

    h = History(part.rng)
    desc = None
    try:
        nontrivial = False
        copies = 0
        for stepno in range(length):
            r = part.rng.random()
            try:
                with warnings.catch_warnings():
                    warnings.simplefilter("ignore")
                    if r < 0.4:
                        h.derive()
                    elif r < 0.65:
                        ids, res = h.compute()
                        for i, v in zip(ids, res):
                            if not np.array_equal(np.asarray(v), h.shadow[i]):
                                part.fail("value-changed-by-history", f"array {i} computes to a different value after {h.steps}", {"steps": h.steps})
                    elif r < 0.92:
                        n_before = len(h.arrays)
                        src_i = None
                        rec = h.store()
                        src_i = rec["src"]
                        # model bookkeeping of ids: an eager store that copies adds a hidden cell in the model
                        if rec["eager"]:
                            rec["model_extra_cell"] = None
                        if any(t["src"] == src_i for t in h.targets[:-1]) or len(h.arrays) > 3:
                            nontrivial = True
                    else:
                        h.config_change()
            except (ValueError, NotImplementedError) as e:
                h.steps.append(("declined", type(e).__name__, str(e)[:80]))
                # keep model and implementation aligned: drop the model call that was just appended, if any
                if h.model_calls and len(h.model_calls) > 0 and h.steps[-2][0] != "declined" if len(h.steps) > 1 else False:
                    pass
                break
            except Exception as e:
                part.fail("history-step-failed", f"{type(e).__name__}: {e} after {h.steps}", {"steps": h.steps})
                break
            part.evaluations += 1
            # O: inputs and earlier targets intact
            for kind, orig, reader in h.inputs:
                cur = reader()
                if not np.array_equal(cur, orig):
                    part.fail("input-modified", f"{kind} input changed after {h.steps}", {"steps": h.steps})
            for t in h.targets:
                cur = t["reader"]()
                if t.get("seen_written") and (cur is None or not np.array_equal(cur, t["shadow"])):
                    part.fail("earlier-target-changed", f"target {t['loc']} no longer holds the stored values after {h.steps}", {"steps": h.steps})
                if cur is not None and np.array_equal(cur, t["shadow"]):
                    t["seen_written"] = True
                if t["eager"] and not t.get("seen_written"):
                    part.fail("eager-store-target-not-filled", f"eager store into target {t['loc']} left it without the source values; steps {h.steps}", {"steps": h.steps})
        # final: every array still computes to its shadow value
        with warnings.catch_warnings():
            warnings.simplefilter("ignore")
            for i in part.rng.sample(range(len(h.arrays)), min(4, len(h.arrays))):
                try:
                    v = h.arrays[i].compute()
                except Exception as e:
                    part.fail("final-compute-failed", f"array {i}: {type(e).__name__}: {e}; steps {h.steps}", {"steps": h.steps})
                    continue
                if not np.array_equal(np.asarray(v), h.shadow[i]):
                    part.fail("value-changed-by-history", f"array {i} computes to a different value after {h.steps}", {"steps": h.steps})
        # lazily stored arrays, once computed, fill their targets
        for t in h.targets:
            if t["returned_same"] is not None and not t.get("seen_written"):
                pass
        desc = {"steps": h.steps}
        part.count("histories")
        part.count("steps", len(h.steps))
        if nontrivial:
            part.nt(desc)
        part.sample({"steps": h.steps[:6]}, limit=1)
        # K: lazy-store decisions (same array returned vs copy) replayed on the machine
        decisions = [(t["src"], t["returned_same"]) for t in h.targets if t["returned_same"] is not None]
        return h.model_calls, decisions
    finally:
        h.close()


def work(part, n):
    for _ in range(n):
        try:
            run_history(part, part.rng.randint(3, part.n(8, 15)))
        except Exception as e:
            import traceback
            part.fail("harness-history-crash", traceback.format_exc()[-800:], {})


def model_suite(ctx, lazy_only=False):
    """Model.Api evaluated in Coq on concrete histories (V := nat): lazy calls leave the store untouched; a lazy store returns
    the source itself exactly when it is an un-retargeted op array; computing gives the denotation; compared with the
    implementation's observable decisions on the same histories."""
    import cubed
    import cubed.array_api as xp
    import zarr

    r = ctx.rng
    cases = []
    pre = ("Definition inp0 (i : nat) : nat := i + 1. Definition opf0 (f : nat) (a : list nat) : nat := f + 7 * sumn a. "
           "Definition st0 : state nat := {| cells := [ {| cexpr := Inp 0; cloc := 0; retargeted := false |}; {| cexpr := Inp 1; cloc := 1; retargeted := false |} ]; "
           "store := fun k => if Nat.eqb k 0 then Some 1 else if Nat.eqb k 1 then Some 2 else None; next_loc := 2 |}. "
           "Definition R := run nat inp0 opf0 99 st0. Definition isS (o : option nat) := match o with Some _ => true | None => false end.")
    tmp = tempfile.mkdtemp(prefix="c10m_", dir="/dev/shm" if os.path.isdir("/dev/shm") else None)
    try:
        for _ in range(ctx.n(40, 600)):
            spec = cubed.Spec(work_dir=os.path.join(tmp, "w"), allowed_mem="200MB")
            d0 = np.arange(16.0).reshape(4, 4)
            arrays = [xp.asarray(d0, chunks=(2, 2), spec=spec), xp.asarray(d0 + 1, chunks=(2, 2), spec=spec)]
            calls = []
            checks = []
            nloc = 100
            for _s in range(r.randint(2, 7)):
                k = r.random()
                ctx.evaluations += 1
                if k < 0.5:
                    i = r.randrange(len(arrays))
                    arrays.append(xp.negative(arrays[i]) if r.random() < 0.5 else arrays[i] + arrays[r.randrange(len(arrays))])
                    calls.append(f"Derive {len(arrays) + 10} [{i}]")
                elif k < 0.85:
                    i = r.randrange(len(arrays))
                    nloc += 1
                    p = os.path.join(tmp, f"t{r.getrandbits(40)}.zarr")
                    with warnings.catch_warnings():
                        warnings.simplefilter("ignore")
                        ret = cubed.store(arrays[i], p, compute=False)[0]
                    same = ret is arrays[i]
                    hist = "[" + "; ".join(calls) + "]"
                    checks.append(f"Nat.eqb (store_result nat (R {hist}) {i}) {i if same else len(arrays)}")
                    hist2 = "[" + "; ".join(calls + [f"StoreLazy {i} {nloc}"]) + "]"
                    checks.append(f"negb (isS (store nat (R {hist2}) {nloc}))")
                    if os.path.exists(p):
                        ctx.fail("lazy-store-created-target", "store(compute=False) created the target", {"calls": calls})
                    calls.append(f"StoreLazy {i} {nloc}")
                    if not same:
                        arrays.append(ret)
                else:
                    calls.append("PlanOf [0]")
                    arrays[-1].plan()
            hist = "[" + "; ".join(calls) + "]"
            # lazy histories leave the store as it was
            checks.append(f"forallb (fun k => option_eqb Nat.eqb (store nat (R {hist}) k) (store nat st0 k)) (seq 0 {nloc + 2})")
            if not checks:
                continue
            cases.append({"expr": " && ".join(checks), "desc": {"calls": calls}, "show": f"map (fun k => store nat (R {hist}) k) (seq 0 4)"})
            ctx.nt("model:" + hist)
    finally:
        shutil.rmtree(tmp, ignore_errors=True)
    ctx.corr("history_machine", "Model.Util Model.Api", cases, defs=pre, chunk=100)


def run(ctx):
    warnings.filterwarnings("ignore")
    pmap(ctx, work, [4] * (ctx.n(96, 2400) // 4), procs=12)
    model_suite(ctx)


def search(ctx):
    pass


def replay(ctx, obj):
    print(json.dumps(obj, indent=1, default=str)[:4000])
    return 0
