"""C19 - acceptance and results do not depend on how resources are configured."""
from __future__ import annotations

import json
import os
import shutil
import tempfile
import warnings

import numpy as np

from harness import gen_programs as G
from harness.framework import cZ, cZlist, pmap

LEVEL = "proof"
RULE = ("every operation of the generator (all families) plus operations that create helper arrays (searchsorted, isin, tril/triu, eye, "
        "linspace, arange, pad, where with scalars, take with indices, broadcast_to, reshape, map_blocks with block ids, meshgrid, "
        "unstack) is built and computed under the configuration variants {global default config, explicit Spec equal to it, other "
        "work_dir, intermediate_store object, compressor none / default / explicit codec, reserved_mem, threads executor, larger "
        "allowed_mem}, and (tight budgets) Specs that leave the same memory for data but reserve 0 / 1 kB / as much again / 100 MB, threads with batch_size 1 / 3, arrays in parallel: the acceptance decision (exception phase and type) and the values must equal those under the baseline. "
        "K: projected memory minus reserved memory of every op of the real plans is the same under all variants, and equals "
        "Model.Memory.calc_projected with reserved 0 shifted (Coq: projected_minus_reserved_independent). "
        "non-trivial = operation that creates a helper array or has >=2 array arguments; distinct = operation x variant")
ASSUMPTIONS = ["the allowed memory suffices for the plan under every variant (500MB for tiny arrays)"]
TRUSTED = []


def variants(tmp):
    import cubed
    import zarr
    from cubed.runtime.create import create_executor

    base = dict(allowed_mem="500MB", reserved_mem=0)
    return [
        ("default-config", None),
        ("explicit-equal", dict(base)),
        ("other-work-dir", dict(base, work_dir=os.path.join(tmp, "wd"))),
        ("intermediate-store", dict(base, intermediate_store=zarr.storage.MemoryStore())),
        ("compressor-none", dict(base, zarr_compressor=None)),
        ("compressor-explicit", dict(base, zarr_compressor={"name": "zstd", "configuration": {"level": 1}})),
        ("reserved-mem", dict(base, reserved_mem=100_000)),
        ("executor-threads", dict(base, executor=create_executor("threads"))),
        ("larger-allowed-mem", dict(base, allowed_mem="2GB")),
    ]


EXTRA_OPS = [
    ("searchsorted", lambda xp, c, a, b: xp.searchsorted(xp.asarray(np.array([1.0, 3.0, 5.0, 7.0]), chunks=2, spec=a.spec), a[0, :]),
     lambda a, b: np.searchsorted(np.array([1.0, 3.0, 5.0, 7.0]), a[0, :])),
    ("isin", lambda xp, c, a, b: xp.isin(a, b[0, :]), lambda a, b: np.isin(a, b[0, :])),
    ("tril", lambda xp, c, a, b: xp.tril(a), lambda a, b: np.tril(a)),
    ("triu_k", lambda xp, c, a, b: xp.triu(a, k=1), lambda a, b: np.triu(a, k=1)),
    ("eye_add", lambda xp, c, a, b: a + xp.eye(4, chunks=2, spec=a.spec), lambda a, b: a + np.eye(4)),
    ("linspace_add", lambda xp, c, a, b: a[0, :] + xp.linspace(0.0, 3.0, 4, chunks=2, spec=a.spec), lambda a, b: a[0, :] + np.linspace(0.0, 3.0, 4)),
    ("arange_add", lambda xp, c, a, b: a[0, :] + xp.arange(4, chunks=2, spec=a.spec), lambda a, b: a[0, :] + np.arange(4)),
    ("pad", lambda xp, c, a, b: c.pad(a, ((1, 0), (0, 2)), mode="constant"), lambda a, b: np.pad(a, ((1, 0), (0, 2)))),
    ("where_scalar", lambda xp, c, a, b: xp.where(a > 3, a, 0.0), lambda a, b: np.where(a > 3, a, 0.0)),
    ("take", lambda xp, c, a, b: xp.take(a, xp.asarray(np.array([0, 2]), chunks=2, spec=a.spec), axis=0), lambda a, b: np.take(a, [0, 2], axis=0)),
    ("broadcast_to", lambda xp, c, a, b: xp.broadcast_to(a, (3, 4, 4)), lambda a, b: np.broadcast_to(a, (3, 4, 4))),
    ("reshape", lambda xp, c, a, b: xp.reshape(a, (2, 8)), lambda a, b: np.reshape(a, (2, 8))),
    ("map_blocks_block_id", lambda xp, c, a, b: c.map_blocks(_bid, a, dtype=a.dtype), lambda a, b: _np_bid(a)),
    ("meshgrid", lambda xp, c, a, b: xp.meshgrid(a[0, :], b[:, 0])[0], lambda a, b: np.meshgrid(a[0, :], b[:, 0])[0]),
    ("unstack", lambda xp, c, a, b: xp.unstack(a, axis=0)[1] + b[0, :], lambda a, b: a[1] + b[0, :]),
    ("full_like_add", lambda xp, c, a, b: a + xp.full_like(a, 2.0), lambda a, b: a + 2.0),
    ("scalar_ops", lambda xp, c, a, b: 2 * a + 1 - b / 2, lambda a, b: 2 * a + 1 - b / 2),
    ("clip", lambda xp, c, a, b: xp.clip(a, 2, 9), lambda a, b: np.clip(a, 2, 9)),
    ("roll", lambda xp, c, a, b: xp.roll(a, 1, axis=1), lambda a, b: np.roll(a, 1, axis=1)),
    ("tile", lambda xp, c, a, b: xp.tile(a, (1, 2)), lambda a, b: np.tile(a, (1, 2))),
    ("repeat", lambda xp, c, a, b: xp.repeat(a, 2, axis=0), lambda a, b: np.repeat(a, 2, axis=0)),
    ("matmul", lambda xp, c, a, b: xp.matmul(a, b), lambda a, b: a @ b),
    ("tensordot", lambda xp, c, a, b: xp.tensordot(a, b, axes=1), lambda a, b: np.tensordot(a, b, axes=1)),
    ("outer", lambda xp, c, a, b: xp.linalg.outer(a[0, :], b[0, :]), lambda a, b: np.outer(a[0, :], b[0, :])),
    ("concat", lambda xp, c, a, b: xp.concat([a, b], axis=1), lambda a, b: np.concatenate([a, b], axis=1)),
    ("stack", lambda xp, c, a, b: xp.stack([a, b]), lambda a, b: np.stack([a, b])),
    ("cumulative_sum", lambda xp, c, a, b: xp.cumulative_sum(a, axis=1), lambda a, b: np.cumsum(a, axis=1)),
    ("mean", lambda xp, c, a, b: xp.mean(a, axis=0), lambda a, b: np.mean(a, axis=0)),
    ("argmin", lambda xp, c, a, b: xp.argmin(a, axis=1), lambda a, b: np.argmin(a, axis=1)),
    ("index_array", lambda xp, c, a, b: a[[0, 2], :], lambda a, b: a[[0, 2], :]),
    ("diff", lambda xp, c, a, b: xp.diff(a, axis=1), lambda a, b: np.diff(a, axis=1)),
    ("nansum", lambda xp, c, a, b: c.nansum(a, axis=0), lambda a, b: np.nansum(a, axis=0)),
]


def _bid(x, block_id=None):
    return x + block_id[0] * 10 + block_id[1]


def _np_bid(a):
    out = a.copy()
    for i in range(2):
        for j in range(2):
            out[2 * i:2 * i + 2, 2 * j:2 * j + 2] += i * 10 + j
    return out


def run_variant(build, vname, skw):
    """returns (outcome class, value or None, plan info)"""
    import cubed

    try:
        with warnings.catch_warnings():
            warnings.simplefilter("ignore")
            if skw is None:
                with cubed.config.set({"spec.allowed_mem": "500MB", "spec.reserved_mem": 0}):
                    y = build(None)
                    info = plan_info(y)
                    v = y.compute()
            else:
                y = build(cubed.Spec(**skw))
                info = plan_info(y)
                v = y.compute()
        return ("ok", np.asarray(v), info)
    except (ValueError, TypeError, NotImplementedError, IndexError) as e:
        return ("refused:" + type(e).__name__, None, None)
    except Exception as e:
        return ("failed:" + type(e).__name__ + ":" + str(e)[:80], None, None)


def plan_info(y):
    pl = y.plan(optimize_graph=False)
    out = []
    for n, d in pl.dag.nodes(data=True):
        if "primitive_op" in d and n != "create-arrays":
            p = d["primitive_op"]
            out.append((d.get("func_name", ""), int(p.projected_mem) - int(p.reserved_mem)))
    return sorted(out)


def check_build(part, label, build, nontrivial=True):
    tmp = tempfile.mkdtemp(prefix="c19_", dir="/dev/shm" if os.path.isdir("/dev/shm") else None)
    try:
        base = None
        for vname, skw in variants(tmp):
            part.evaluations += 1
            res = run_variant(build, vname, skw)
            desc = {"operation": label, "variant": vname}
            if vname == "explicit-equal":
                base = res
            if base is None:          # default-config comes first: compare afterwards
                first = res
                continue
            ref = base
            for who, r in (("default-config", first),) if vname == "explicit-equal" else ((vname, res),):
                if r[0] != ref[0]:
                    part.fail(f"acceptance-depends-on-config:{label}", f"{label}: outcome '{r[0]}' under {who} but '{ref[0]}' under an equal explicit Spec", {**desc, "variant": who})
                elif r[0] == "ok":
                    if r[1].shape != ref[1].shape or not np.array_equal(r[1], ref[1], equal_nan=True):
                        part.fail(f"values-depend-on-config:{label}", f"{label}: values under {who} differ from those under an equal explicit Spec", {**desc, "variant": who})
                    if who not in ("executor-threads",) and r[2] != ref[2]:
                        part.fail(f"projected-mem-depends-on-config:{label}", f"{label}: projected-minus-reserved memory differs under {who}: {r[2][:3]} vs {ref[2][:3]}", {**desc, "variant": who})
            part.count("variant:" + vname)
        if nontrivial:
            part.nt(label)
        if base and base[0] == "ok":
            part.count("operations-accepted")
        else:
            part.count("operations-refused-everywhere")
    finally:
        shutil.rmtree(tmp, ignore_errors=True)


def work(part, items):
    import cubed
    import cubed.array_api as xp

    for it in items:
        if it[0] == "extra":
            name, cf, nf = EXTRA_OPS[it[1]]
            an = np.arange(16.0).reshape(4, 4) + 1
            bn = (np.arange(16.0).reshape(4, 4) * 3) % 7 + 1

            def build(spec, cf=cf):
                a = xp.asarray(an, chunks=(2, 2), spec=spec)
                b = xp.asarray(bn, chunks=(2, 2), spec=spec)
                return cf(xp, cubed, a, b)

            check_build(part, name, build)
            # value check against numpy once
            try:
                with warnings.catch_warnings():
                    warnings.simplefilter("ignore")
                    got = np.asarray(build(cubed.Spec(allowed_mem="500MB")).compute())
                want = np.asarray(nf(an, bn))
                if got.shape != want.shape or not np.allclose(got, want):
                    part.fail(f"wrong-values:{name}", f"{name} differs from NumPy", {"operation": name})
            except Exception:
                pass
        else:
            import random
            prog = G.gen_program(random.Random(it[1]), nstmts=random.Random(it[1]).randint(1, 3), allow_zero=False, maxlen=6)

            def build(spec, prog=prog):
                env = G.build(prog, spec)
                return env[prog["outs"][0]]

            check_build(part, "program:" + "+".join(s["op"] for s in prog["stmts"]), build, nontrivial=len(prog["stmts"]) > 1)
    part.sample({"items": [str(i) for i in items[:3]]}, limit=1)


def tight_work(part, n):
    """the same expression under Specs that leave the SAME memory for data (allowed_mem - reserved_mem = X, with X just
    enough) but reserve different amounts, or batch / order tasks differently: acceptance and values must not change"""
    import cubed
    import cubed.array_api as xp
    from cubed.runtime.create import create_executor

    for _ in range(n):
        kind = part.rng.choice(["rechunk", "rechunk", "sum", "matmul", "elementwise"])
        n0, n1 = part.rng.randint(20, 60), part.rng.randint(20, 60)
        an = np.arange(n0 * n1, dtype="float64").reshape(n0, n1) + 1
        c0, c1 = part.rng.choice([1, 2, 3, n0 // 2]), part.rng.randint(max(1, n1 // 2), n1)
        if kind == "rechunk":
            tgt = (part.rng.randint(max(1, n0 // 2), n0), part.rng.choice([1, 2, 3]))
            build = lambda spec: xp.asarray(an, chunks=(c0, c1), spec=spec).rechunk(tgt)
            want = an
        elif kind == "sum":
            build = lambda spec: xp.sum(xp.asarray(an, chunks=(c0, c1), spec=spec), axis=0)
            want = an.sum(axis=0)
        elif kind == "matmul":
            build = lambda spec: xp.matmul(xp.asarray(an, chunks=(c0, c1), spec=spec), xp.asarray(an.T.copy(), chunks=(c1, c0), spec=spec))
            want = an @ an.T
        else:
            build = lambda spec: xp.negative(xp.asarray(an, chunks=(c0, c1), spec=spec)) * 2 + 1
            want = -an * 2 + 1
        desc0 = {"tight": kind, "shape": (n0, n1), "chunks": (c0, c1)}
        # X: the smallest budget (reserved 0) under which the expression is accepted, found by probing the real planner
        try:
            with warnings.catch_warnings():
                warnings.simplefilter("ignore")
                big = build(cubed.Spec(allowed_mem="500MB", reserved_mem=0)).plan()
            need = int(big.max_projected_mem)
        except Exception:
            continue
        X = None
        for f in (0.02, 0.04, 0.07, 0.1, 0.15, 0.25, 0.4, 0.6, 0.8, 1.0, 1.5, 2, 3, 6, 20):     # ascending: the smallest accepted budget
            try:
                with warnings.catch_warnings():
                    warnings.simplefilter("ignore")
                    y = build(cubed.Spec(allowed_mem=int(need * f), reserved_mem=0))
                    y.plan()
                    v0 = np.asarray(y.compute())
                X = int(need * f)
                break
            except ValueError:
                continue
            except Exception:
                break
        if X is None:
            continue
        part.evaluations += 1
        part.count("tight:" + kind)
        part.nt(desc0)
        if not np.array_equal(v0, want):
            part.fail(f"values-depend-on-config:tight-{kind}", f"{kind}: wrong values under the tight baseline budget {X}", desc0)
        for vname, kw in [("reserved-small", dict(allowed_mem=X + 1000, reserved_mem=1000)), ("reserved-equal-data", dict(allowed_mem=2 * X, reserved_mem=X)),
                          ("reserved-dominant", dict(allowed_mem=X + 100_000_000, reserved_mem=100_000_000)),
                          ("threads-batch-1", dict(allowed_mem=X, reserved_mem=0, executor_name="threads", executor_options=dict(batch_size=1))),
                          ("threads-batch-3", dict(allowed_mem=X, reserved_mem=0, executor_name="threads", executor_options=dict(batch_size=3))),
                          ("processes-like-threads-parallel-arrays", dict(allowed_mem=X, reserved_mem=0, executor_name="threads",
                                                                         executor_options=dict(compute_arrays_in_parallel=True)))]:
            desc = {**desc0, "variant": vname, "spec": {k: v for k, v in kw.items()}, "baseline_allowed_mem": X}
            part.count("variant:" + vname)
            try:
                with warnings.catch_warnings():
                    warnings.simplefilter("ignore")
                    v = np.asarray(build(cubed.Spec(**kw)).compute())
            except Exception as e:
                part.fail(f"acceptance-depends-on-config:tight-{kind}", f"{kind}: accepted with allowed_mem={X}, reserved_mem=0 but {type(e).__name__} under {vname} "
                                                                        f"({str(e)[:100]}), although the memory left for data is the same", desc)
                continue
            if v.shape != v0.shape or not np.array_equal(v, v0):
                part.fail(f"values-depend-on-config:tight-{kind}", f"{kind}: values under {vname} differ from those under the baseline configuration", desc)


def k_model(ctx):
    from cubed.primitive.memory import BufferCopies, calculate_projected_mem

    r = ctx.rng
    cases = []
    for _ in range(ctx.n(200, 5000)):
        res = r.randint(0, 10**8)
        ins = [r.randint(1, 10**7) for _ in range(r.randint(0, 3))]
        op = r.randint(0, 10**6)
        out = r.randint(1, 10**7)
        real = calculate_projected_mem(res, ins, op, out, BufferCopies(read=1, write=1)) - res
        real0 = calculate_projected_mem(0, ins, op, out, BufferCopies(read=1, write=1))
        cases.append({"expr": f"Z.eqb (calc_projected {cZ(res)} {cZlist(ins)} {cZ(op)} {cZ(out)} 1 1 - {cZ(res)}) {cZ(real)} && Z.eqb (calc_projected 0 {cZlist(ins)} {cZ(op)} {cZ(out)} 1 1) {cZ(real0)} && Z.eqb {cZ(real)} {cZ(real0)}",
                      "desc": {"reserved": res, "inputs": ins}, "show": f"calc_projected {cZ(res)} {cZlist(ins)} {cZ(op)} {cZ(out)} 1 1"})
        ctx.evaluations += 1
    ctx.corr("projected_minus_reserved", "Model.Util Model.Memory", cases, defs="Local Open Scope Z_scope.")


def run(ctx):
    warnings.filterwarnings("ignore")
    k_model(ctx)
    items = [("extra", i) for i in range(len(EXTRA_OPS))] + [("prog", ctx.rng.randrange(10**9)) for _ in range(ctx.n(40, 1500))]
    ctx.rng.shuffle(items)
    chunks = [items[i::12] for i in range(12)]
    pmap(ctx, work, [c for c in chunks if c], procs=12)
    pmap(ctx, tight_work, [4] * (ctx.n(24, 600) // 4), procs=6)


def search(ctx):
    pass


def replay(ctx, obj):
    print(json.dumps(obj, indent=1, default=str)[:3000])
    return 0
