"""C03 - projected memory is a true upper bound on what every task allocates."""
from __future__ import annotations

import json
import tracemalloc
import warnings

import numpy as np

from harness.adv_executor import AdvExecutor
from harness.framework import cZ, cZlist, pmap

LEVEL = "proof"
TRANSLATED_KERNELS = ["calculate_projected_mem", "general_blockwise.projected_mem"]   # harness/translate.py: the projection general_blockwise gives an ordinary operation (inputs, declared extra, the chunk it WRITES) re-translated from /repo on every run
RULE = ("operation instances of every family (elementwise fused/unfused, widening reductions, structured arg-reductions, mean, "
        "cumulative ops, matmul/outer/tensordot, rechunk, concat/stack/unstack/repeat/flip/roll/permute/reshape/broadcast/index/pad, "
        "map_blocks) on chunks of >= 200 kB (square, skinny, uneven last chunk), dtypes float64/float32/int64/int32, compressor none / "
        "default, optimised and unoptimised, plus a list of corner instances (thin chunks under widening / structured reductions, deep fused folds, many-block lists, output-dominated products) drawn 40% of the time; every task runs in-process under tracemalloc (NumPy buffers are traced): peak - baseline "
        "<= projected_mem of its op, with reserved_mem = 1 MB so that the 40-125 kB of non-data noise per task can never alarm. "
        "K: projected_mem of elementwise ops of the real plans vs Model.Memory.calc_projected; modelled task peak (Model.AllocTrace) "
        "vs the formula on the same integers. non-trivial = op instance with >=2 tasks; distinct = op x geometry x dtype x options")
ASSUMPTIONS = ["tracemalloc sees NumPy and Zarr buffer allocations of the task (both allocate through the Python allocator domain)",
               "the statement's bound includes reserved memory: the oracle sets reserved_mem = 1 MB to absorb interpreter/JSON noise"]
TRUSTED = ["tracemalloc"]

MB = 1_000_000


def geometries(rng):
    kind = rng.choice(["square", "skinny", "uneven", "square"])
    if kind == "square":
        c = rng.choice([180, 200, 256])
        shape = (c * rng.choice([1, 2, 3]), c * rng.choice([1, 2]))
        chunks = (c, c)
    elif kind == "skinny":
        c0, c1 = rng.choice([(2000, 16), (16, 2000), (40000, 1), (5000, 8), (1, 60000), (2, 30000), (1, 400000), (400000, 1)])
        shape = (c0 * rng.choice([1, 2]), c1 * rng.choice([1, 2, 3]))
        chunks = (c0, c1)
    else:
        c = rng.choice([200, 230])
        shape = (c * 2 + rng.randint(1, c - 1), c + rng.randint(1, c - 1))
        chunks = (c, c)
    return kind, shape, chunks


def op_instances():
    """name -> builder(xp, cubed, a, b) ; a, b are 2-d arrays of equal shape/chunks"""
    return {
        "negative": lambda xp, c, a, b: xp.negative(a),
        "add": lambda xp, c, a, b: xp.add(a, b),
        "fused-chain": lambda xp, c, a, b: xp.sqrt(xp.abs(xp.add(xp.multiply(a, b), 1))),
        "astype-widen": lambda xp, c, a, b: xp.astype(a, xp.float64) + 1,
        "sum-axis0": lambda xp, c, a, b: xp.sum(a, axis=0),
        "sum-all": lambda xp, c, a, b: xp.sum(a),
        "mean": lambda xp, c, a, b: xp.mean(xp.astype(a, xp.float64), axis=1),
        "max": lambda xp, c, a, b: xp.max(a, axis=0),
        "argmax": lambda xp, c, a, b: xp.argmax(a, axis=0),
        "cumulative_sum": lambda xp, c, a, b: xp.cumulative_sum(a, axis=0),
        "matmul": lambda xp, c, a, b: xp.matmul(a, xp.permute_dims(b, (1, 0))),
        "permute": lambda xp, c, a, b: xp.permute_dims(a, (1, 0)),
        "rechunk": lambda xp, c, a, b: a.rechunk((a.chunksize[0] // 2 or 1, a.chunksize[1] * 2)),
        "rechunk-tall": lambda xp, c, a, b: a.rechunk((min(a.shape[0], a.chunksize[0] * 4), max(a.chunksize[1] // 4, 1))),
        "rechunk-wide": lambda xp, c, a, b: a.rechunk((max(a.chunksize[0] // 4, 1), min(a.shape[1], a.chunksize[1] * 4))),
        "store-finer-grid": lambda xp, c, a, b: _store_finer(xp, c, a),
        "concat": lambda xp, c, a, b: xp.concat([a, b], axis=0),
        "stack": lambda xp, c, a, b: xp.stack([a, b], axis=0),
        "unstack": lambda xp, c, a, b: xp.unstack(xp.stack([a, b, a], axis=0), axis=0)[1],
        "unstack-many": lambda xp, c, a, b: xp.unstack(xp.stack([a, b, a, b, a, b, a, b], axis=0), axis=0)[5],
        "repeat": lambda xp, c, a, b: xp.repeat(a, 2, axis=0),
        "flip": lambda xp, c, a, b: xp.flip(a, axis=0),
        "roll": lambda xp, c, a, b: xp.roll(a, 7, axis=1),
        "reshape": lambda xp, c, a, b: xp.reshape(a, (a.shape[0] * a.shape[1],)),
        "broadcast": lambda xp, c, a, b: xp.broadcast_to(a, (2,) + a.shape) + 1,
        "index-step": lambda xp, c, a, b: a[::2, 1:],
        "index-array": lambda xp, c, a, b: a[[0, 5, 3], :],
        "pad": lambda xp, c, a, b: c.pad(a, ((1, 0), (0, 0)), mode="symmetric"),
        "map_blocks": lambda xp, c, a, b: c.map_blocks(_twice, a, dtype=a.dtype),
        "where": lambda xp, c, a, b: xp.where(a > b, a, b),
        "outer": lambda xp, c, a, b: xp.linalg.outer(a[:, 0], b[:, 0]),
        "tril": lambda xp, c, a, b: xp.tril(a),
        "var": lambda xp, c, a, b: xp.var(xp.astype(a, xp.float64), axis=0),
        "nansum": lambda xp, c, a, b: c.nansum(xp.astype(a, xp.float64), axis=1),
        # a deep right-nested fold that the optimizer fuses into one op: every already evaluated predecessor's output
        # is still held while the next one runs
        "right-nested-fold": lambda xp, c, a, b: _right_fold(xp, [xp.negative(xp.multiply(t, float(i + 2))) for i, t in enumerate([a, b] * 4)]),
        "left-fold": lambda xp, c, a, b: _left_fold(xp, [xp.negative(xp.multiply(t, float(i + 2))) for i, t in enumerate([a, b] * 3)]),
        # widening reductions without a prior cast: the intermediate of mean is a 16-byte {n, total} record per element
        "mean-direct-axis0": lambda xp, c, a, b: xp.mean(a, axis=0),
        "mean-direct-axis1": lambda xp, c, a, b: xp.mean(a, axis=1),
        "sum-direct-axis1": lambda xp, c, a, b: xp.sum(a, axis=1),
        "sum-direct-axis0": lambda xp, c, a, b: xp.sum(a, axis=0),
        "prod-direct-axis0": lambda xp, c, a, b: xp.prod(a, axis=0),
        "var-direct": lambda xp, c, a, b: xp.var(a, axis=0),
    }


def _right_fold(xp, terms):
    acc = terms[-1]
    for t in reversed(terms[:-1]):
        acc = xp.add(t, acc)
    return acc


def _left_fold(xp, terms):
    acc = terms[0]
    for t in terms[1:]:
        acc = xp.add(acc, t)
    return acc


def _twice(x):
    return x * 2


def _store_finer(xp, cubed, a):
    """lazy store of a computed array into an existing Zarr array whose chunk grid divides the source chunks: no rechunk is inserted,
    every task writes one source chunk across several stored chunks"""
    import zarr

    tchunks = tuple(max(c // 2, 1) for c in a.chunksize)
    z = zarr.create_array(zarr.storage.MemoryStore(), shape=a.shape, dtype=a.dtype, chunks=tchunks, compressors=None)
    return cubed.to_zarr(xp.negative(a), z, compute=False)


class Meter:
    def __init__(self):
        self.peaks = {}     # op name -> max delta
        self.base = 0

    def __call__(self, name, m, phase):
        if phase == "start":
            tracemalloc.reset_peak()
            self.base = tracemalloc.get_traced_memory()[0]
        else:
            peak = tracemalloc.get_traced_memory()[1]
            d = peak - self.base
            cur = self.peaks.get(name)
            if cur is None or d > cur[0]:
                self.peaks[name] = (d, tuple(m) if isinstance(m, (list, tuple)) else None)


def known_key(opname, func_name, desc):
    # the call site (public function that built the op) identifies the finding
    return f"under-projected:{func_name}"


def run_instance(desc):
    """Builds and runs one operation instance; returns (plan, {op name: (peak delta, task)}) or None when declined."""
    import cubed
    import cubed.array_api as xp
    import zarr

    ops = op_instances()
    spec = cubed.Spec(allowed_mem="2GB", reserved_mem=MB, zarr_compressor=desc["compressor"], intermediate_store=zarr.storage.MemoryStore())
    rs = np.random.RandomState(desc["data_seed"])
    shape, chunks, dtype, og = tuple(desc["shape"]), tuple(desc["chunks"]), desc["dtype"], desc["optimize_graph"]
    an = (rs.rand(*shape) * 100).astype(dtype)
    bn = (rs.rand(*shape) * 100).astype(dtype)
    try:
        with warnings.catch_warnings():
            warnings.simplefilter("ignore")
            a = cubed.from_array(an, chunks=chunks, spec=spec)
            b = cubed.from_array(bn, chunks=chunks, spec=spec)
            y = ops[desc["op"]](xp, cubed, a, b)
            plan = y.plan(optimize_graph=og)
            meter = Meter()
            y.compute(executor=AdvExecutor(on_task=meter), optimize_graph=og)
    except (ValueError, TypeError, NotImplementedError):
        return None
    except Exception:
        return None     # C17's business
    return plan, meter.peaks


# corners where a projection is most likely to be too small: widening / structured reductions over chunks that are thin along the
# reduced axis, deep folds that the optimizer fuses into one task, many-block list arguments, output-dominated products
CORNERS = [
    ("mean-direct-axis0", (8, 400000), (1, 400000), "float32"), ("mean-direct-axis1", (400000, 8), (400000, 1), "float32"),
    ("var-direct", (8, 300000), (1, 300000), "float64"), ("var-direct", (8, 300000), (1, 300000), "float32"),
    ("sum-direct-axis0", (8, 400000), (1, 400000), "uint8"), ("prod-direct-axis0", (6, 400000), (1, 400000), "int8"),
    ("argmax", (8, 300000), (1, 300000), "float32"), ("max", (8, 300000), (1, 300000), "float64"),
    ("right-nested-fold", (720, 360), (360, 360), "float64"), ("right-nested-fold", (500, 500), (500, 250), "float32"),
    ("left-fold", (720, 360), (360, 360), "float64"), ("fused-chain", (720, 360), (360, 360), "float64"),
    ("unstack-many", (400, 400), (200, 400), "float64"), ("matmul", (3000, 16), (1500, 8), "float64"), ("matmul", (4000, 16), (2000, 8), "uint8"),
    ("cumulative_sum", (8, 300000), (1, 300000), "float64"), ("nansum", (300000, 8), (300000, 1), "float64"),
    # write chunk larger than the stored chunk grid of the target (rechunk stages, store into a finer grid)
    ("rechunk-tall", (2000, 500), (500, 500), "float64"), ("rechunk-wide", (600, 2400), (600, 600), "float64"), ("rechunk-tall", (4000, 256), (1000, 256), "float32"),
    ("store-finer-grid", (1000, 1000), (500, 500), "float64"), ("store-finer-grid", (1200, 600), (600, 600), "float32"),
]


def work(part, n):
    names = list(op_instances())
    tracemalloc.start()
    try:
        for it in range(n):
            if part.rng.random() < 0.4:
                name, shape, chunks, dtype = part.rng.choice(CORNERS)
                gk = "corner"
                comp = None if part.rng.random() < 0.7 else "auto"
                og = part.rng.random() < 0.7
            else:
                name = part.rng.choice(names)
                gk, shape, chunks = geometries(part.rng)
                dtype = part.rng.choice(["float64", "float64", "float32", "int64", "int32", "uint8", "int8"])
                comp = part.rng.choice(["auto", None])
                og = part.rng.random() < 0.5
            desc = {"op": name, "geometry": gk, "shape": shape, "chunks": chunks, "dtype": dtype, "compressor": comp, "optimize_graph": og,
                    "data_seed": part.rng.randrange(10**6)}
            r = run_instance(desc)
            if r is None:
                continue
            plan, peaks = r
            part.evaluations += 1
            part.count("op:" + name)
            part.count("geometry:" + gk)
            part.count("compressor:" + str(comp))
            ntasks = 0
            uncompressed = None
            for opname, (delta, task) in peaks.items():
                if opname == "create-arrays":
                    continue
                node = plan.dag.nodes[opname]
                pop = node["primitive_op"]
                ntasks = max(ntasks, pop.num_tasks)
                part.count("tasks-measured", 1)
                ratio = delta / max(pop.projected_mem, 1)
                part.count(f"utilisation-{min(int(ratio * 10), 12) * 10}%")
                if delta > pop.projected_mem:
                    fn = node.get("func_name", "")
                    key = known_key(opname, fn, desc)
                    from cubed.utils import chunk_memory
                    out_mem = int(chunk_memory(pop.target_array)) if not isinstance(pop.target_array, list) else max(int(chunk_memory(t)) for t in pop.target_array)
                    if comp is not None:
                        # is the overrun the compressed copy of the (incompressible) output chunk?  the same instance is
                        # re-run without a compressor: if it then stays within the projection and the overrun is at most one
                        # output chunk, it is the specific known finding D23, otherwise an ordinary under-projection
                        if uncompressed is None:
                            r2 = run_instance({**desc, "compressor": None})
                            uncompressed = r2[1] if r2 else {}
                            plan2 = r2[0] if r2 else None
                        names2 = [n_ for n_ in (plan2.dag.nodes if plan2 is not None else []) if plan2.dag.nodes[n_].get("func_name") == fn
                                  and plan2.dag.nodes[n_].get("primitive_op") is not None]
                        ok_without = bool(names2) and all(uncompressed.get(n_, (0, None))[0] <= plan2.dag.nodes[n_]["primitive_op"].projected_mem for n_ in names2)
                        if ok_without and delta - pop.projected_mem <= out_mem * 1.05 + 65536:
                            key = "compressed-output-copy-not-projected"
                    nsrc = len(pop.source_array_names)
                    if key != "compressed-output-copy-not-projected" and og and nsrc >= 3:
                        # finding D25: a fused op with several predecessors also holds the intermediate results of the nested
                        # function (add(t0, add(t1, ...))) which peak_projected_mem does not count - at most one chunk beyond the
                        # projection in every case seen; the same instance unfused stays within its projections
                        in_mem = max([int(chunk_memory(plan.dag.nodes[s_]["target"])) for s_ in pop.source_array_names
                                      if s_ in plan.dag.nodes and plan.dag.nodes[s_].get("target") is not None] + [out_mem])
                        if delta - pop.projected_mem <= in_mem * 1.05 + 65536:
                            r3 = run_instance({**desc, "optimize_graph": False, "compressor": None})
                            if r3 is not None and all(v_[0] <= r3[0].dag.nodes[n_]["primitive_op"].projected_mem
                                                      for n_, v_ in r3[1].items() if n_ != "create-arrays"):
                                key = "fused-op-holds-nested-intermediate-one-chunk"
                    part.fail(key,
                              f"{name}: a task of {opname} ({fn}) allocated {delta} bytes of array data beyond its baseline, projected_mem is {pop.projected_mem} "
                              f"(chunk {chunks} {dtype}, compressor {comp}, optimize_graph={og}, output chunk {out_mem} bytes)",
                              {**desc, "measured": delta, "projected": pop.projected_mem, "task": task, "output_chunk_bytes": out_mem})
                # K: elementwise ops are projected by the bare formula
                if node.get("func_name") in ("negative", "add", "multiply", "abs", "sqrt", "where") and not og:
                    srcs = [plan.dag.nodes[s]["target"] for s in pop.source_array_names if s in plan.dag.nodes]
                    from cubed.utils import chunk_memory
                    ins = [int(chunk_memory(t)) for t in srcs]
                    out = int(chunk_memory(pop.target_array))
                    part.case("formula", {"expr": f"Z.eqb (calc_projected {cZ(pop.reserved_mem)} {cZlist(ins)} 0 {cZ(out)} 1 1) {cZ(pop.projected_mem)} && "
                                                  f"(task_peak 1 1 {('[' + '; '.join('ABlock ' + cZ(i) for i in ins) + ']')} 0 {cZ(out)} <=? formula 1 1 {('[' + '; '.join('ABlock ' + cZ(i) for i in ins) + ']')} 0 {cZ(out)})",
                                          "desc": {**desc, "func": node.get("func_name")}, "show": f"calc_projected {cZ(pop.reserved_mem)} {cZlist(ins)} 0 {cZ(out)} 1 1"})
            if ntasks >= 2:
                part.nt({k_: v_ for k_, v_ in desc.items() if k_ != "data_seed"})
            part.sample({**desc, "peaks": {k: v[0] for k, v in list(peaks.items())[:4]}}, limit=1)
    finally:
        tracemalloc.stop()


def fold_correspondence(ctx):
    """K: fused folds of negative(multiply(a, k)) terms over stored blocks: peak data allocation of the single fused task, in
    units of one chunk, vs Model.AllocTrace.tree_task_peak (eager reading of all inputs + nested evaluation), and cubed's
    projected_mem of the fused op vs Model.AllocTrace.tree_projected"""
    import cubed
    import cubed.array_api as xp
    import zarr

    cases = []
    tracemalloc.start()
    try:
        for _ in range(ctx.n(8, 60)):
            nterms = ctx.rng.choice([2, 3, 4, 4])
            right = ctx.rng.random() < 0.5
            side = ctx.rng.choice([600, 720, 800])
            X = side * side * 8
            spec = cubed.Spec(allowed_mem="4GB", reserved_mem=0, zarr_compressor=None, intermediate_store=zarr.storage.MemoryStore())
            an = np.random.RandomState(ctx.rng.randrange(10**6)).rand(2 * side, side)
            with warnings.catch_warnings():
                warnings.simplefilter("ignore")
                a = cubed.from_array(an, chunks=(side, side), spec=spec)
                terms = [xp.negative(xp.multiply(a, float(i + 2))) for i in range(nterms)]
                y = _right_fold(xp, terms) if right else _left_fold(xp, terms)
                plan = y.plan(optimize_graph=True)
                adds = [n for n, d in plan.dag.nodes(data=True) if d.get("func_name") == "add"]
                if len(adds) != 1 or len(plan.dag.nodes[adds[0]]["primitive_op"].source_array_names) != 2 * nterms:
                    ctx.count("fold-not-fused-into-one-op")
                    continue
                meter = Meter()
                y.compute(executor=AdvExecutor(on_task=meter), optimize_graph=True)
            ctx.evaluations += 1
            measured = meter.peaks[adds[0]][0]
            projected = int(plan.dag.nodes[adds[0]]["primitive_op"].projected_mem)
            units = measured / X
            desc = {"fold": "right" if right else "left", "terms": nterms, "chunk_bytes": X, "measured": measured, "measured_chunks": round(units, 3), "projected": projected}
            if abs(units - round(units)) > 0.2:
                ctx.count("fold-measurement-not-a-chunk-multiple")
                continue
            ctx.count(f"fold:{desc['fold']}-{nterms}")
            ctx.nt({"fold": desc["fold"], "terms": nterms})
            tree = f"({'right_fold' if right else 'left_fold'} 1 {nterms - 1})"
            cases.append({"expr": f"Z.eqb (tree_task_peak 1 1 {tree}) {int(round(units))} && Z.eqb ({cZ(X)} * tree_projected 1 1 {tree}) {cZ(projected)}",
                          "desc": desc, "show": f"(tree_task_peak 1 1 {tree}, tree_projected 1 1 {tree})"})
    finally:
        tracemalloc.stop()
    ctx.corr("fused_fold_peak_and_projection", "Model.Util Model.Memory Model.AllocTrace", cases, defs="Local Open Scope Z_scope.", chunk=100)


def _blocks(k, shape, dtype, seed):
    # each block is allocated directly in its dtype: exactly x bytes, no temporaries (the model's read phase with rc = 0)
    for i in range(k):
        yield np.full(shape, (seed + i) % 50, dtype=dtype)


def partial_reduce_correspondence(ctx):
    """K: (a) the real _partial_reduce (cubed/core/ops.py) run on k in-memory blocks with NumPy's sum under tracemalloc: measured
    peak vs Model.PartialReduce.pr_task_peak (read copies 0, no write); (b) projected_mem of the first-round op of real
    reductions vs Model.PartialReduce.pr_projected"""
    from functools import partial

    import cubed
    import cubed.array_api as xp
    import cubed.backend_array_api as bapi
    from cubed.core.ops import _partial_reduce
    from cubed.utils import chunk_memory

    nxp = bapi.namespace
    cases = []
    for _ in range(ctx.n(10, 80)):
        k = ctx.rng.choice([1, 2, 3, 4, 4, 6])
        din, dout = ctx.rng.choice([("uint8", "uint64"), ("int8", "int64"), ("float32", "float64"), ("float64", "float64"), ("int32", "int64"), ("uint8", "uint64")])
        rows = ctx.rng.choice([1, 1, 1, 2, 4])
        N = ctx.rng.choice([300_000, 400_000, 500_000])
        x = rows * N * np.dtype(din).itemsize
        R = N * np.dtype(dout).itemsize
        init = partial(nxp.sum, axis=(0,), keepdims=True, dtype=dout)
        red = partial(nxp.sum, dtype=dout)
        tracemalloc.start()
        try:
            base = tracemalloc.get_traced_memory()[0]
            tracemalloc.reset_peak()
            res = _partial_reduce(_blocks(k, (rows, N), din, ctx.rng.randrange(10**6)), reduce_func=red, initial_func=init, axis=(0,))
            peak = tracemalloc.get_traced_memory()[1] - base
            del res
        finally:
            tracemalloc.stop()
        ctx.evaluations += 1
        ctx.count(f"partial-reduce:k={k}")
        ctx.nt({"partial_reduce": (k, din, dout, rows)})
        desc = {"k": k, "in": din, "out": dout, "rows": rows, "N": N, "x": x, "R": R, "measured": peak}
        tol = max(int(0.02 * peak), 100_000)
        cases.append({"expr": f"Z.abs (pr_task_peak 0 0 {cZ(x)} {cZ(R)} {cZ(R)} true {k} - {cZ(peak)}) <=? {cZ(tol)}",
                      "desc": desc, "show": f"pr_task_peak 0 0 {cZ(x)} {cZ(R)} {cZ(R)} true {k}"})
    ctx.corr("partial_reduce_task_peak", "Model.Util Model.Memory Model.PartialReduce", cases, defs="Local Open Scope Z_scope.", chunk=100)
    # (b) projections of real plans
    cases = []
    for _ in range(ctx.n(12, 100)):
        din = ctx.rng.choice(["uint8", "int8", "float32", "float64", "int32"])
        shape = (ctx.rng.randint(4, 12), ctx.rng.choice([1000, 5000, 20000]))
        chunks = (ctx.rng.choice([1, 2, 3]), shape[1])
        reserved = ctx.rng.choice([0, 1000, MB])
        spec = cubed.Spec(allowed_mem="2GB", reserved_mem=reserved, zarr_compressor=None)
        with warnings.catch_warnings():
            warnings.simplefilter("ignore")
            a = cubed.from_array(np.zeros(shape, dtype=din), chunks=chunks, spec=spec)
            y = xp.sum(a, axis=0) if ctx.rng.random() < 0.7 else xp.max(a, axis=0)
            plan = y.plan(optimize_graph=False)
        # the first-round op: reads a's array, func_name sum/max, its primitive op has num_input_blocks > 1 (streams blocks)
        firsts = [d for n, d in plan.dag.nodes(data=True) if d.get("primitive_op") is not None and a.name in d["primitive_op"].source_array_names
                  and d.get("func_name") in ("sum", "max")]
        if len(firsts) != 1:
            ctx.count("partial-reduce-plan-shape-unexpected")
            continue
        pop = firsts[0]["primitive_op"]
        x = int(a.chunkmem)
        R = int(chunk_memory(pop.target_array))
        ctx.evaluations += 1
        cases.append({"expr": f"Z.eqb (pr_projected {cZ(reserved)} 1 1 {cZ(x)} {cZ(R)} true) {cZ(int(pop.projected_mem))}",
                      "desc": {"dtype": din, "shape": shape, "chunks": chunks, "reserved": reserved, "x": x, "R": R, "projected": int(pop.projected_mem)},
                      "show": f"pr_projected {cZ(reserved)} 1 1 {cZ(x)} {cZ(R)} true"})
    ctx.corr("partial_reduce_projection", "Model.Util Model.Memory Model.PartialReduce", cases, defs="Local Open Scope Z_scope.", chunk=100)


def run(ctx):
    warnings.filterwarnings("ignore")
    cases = pmap(ctx, work, [6] * (ctx.n(96, 1500) // 6), procs=8)
    ctx.corr("elementwise_formula_and_model_peak", "Model.Util Model.Memory Model.AllocTrace", cases.get("formula", []), defs="Local Open Scope Z_scope.", chunk=200)
    fold_correspondence(ctx)
    partial_reduce_correspondence(ctx)


def search(ctx):
    pass


def replay(ctx, obj):
    print(json.dumps(obj, indent=1, default=str)[:3000])
    return 0
