"""C13 - plan task counts match execution; callbacks see each event exactly once in order."""
from __future__ import annotations

import json
import warnings

import numpy as np

from harness import gen_programs as G
from harness.framework import cnatlist, cnatlist2, pmap

LEVEL = "proof"
TRANSLATED_KERNELS = ["ChunkKeys.__iter__", "general_blockwise.num_tasks", "_cumsum", "get_item"]   # harness/translate.py: task list and task count of an ordinary blockwise op, and the region of a block, re-translated from /repo on every run and proved equal to Model.Geometry
RULE = ("K: ChunkKeys / product_from / get_item / normalize_chunks / block-id<->offset on generated chunk geometries vs Model.Geometry; "
        "per op of real finalized plans: len(list(pipeline.mappable)) vs num_tasks vs the model's block enumeration; "
        "O: a recording Callback on real runs (executors x optimize_graph x compute_arrays_in_parallel x batch_size): event trace "
        "accepted by the Coq checker Model.Events.events_ok and task-end counts equal the advertised num_tasks. "
        "non-trivial = plan with >=2 ops and >=2 tasks in some op; distinct = distinct program x configuration")
ASSUMPTIONS = ["callbacks are invoked on the driver (the process that called compute)"]
TRUSTED = []


def k_geometry(ctx):
    from cubed.primitive.blockwise import ChunkKeys
    from cubed.utils import block_id_to_offset, get_item, normalize_chunks, offset_to_block_id

    r = ctx.rng
    cases = []
    for _ in range(ctx.n(300, 6000)):
        nd = r.choice([0, 1, 1, 2, 2, 3])
        shape = tuple(r.choice([0, 1, r.randint(1, 12), r.randint(1, 40)]) for _ in range(nd))
        cs = tuple(r.randint(1, max(1, n)) for n in shape)
        chunks = normalize_chunks(cs, shape=shape, dtype=np.float64)
        ctx.evaluations += 1
        parts = []
        for n, c, ch in zip(shape, cs, chunks):
            parts.append(f"natlist_eqb (regular {n} {c}) {cnatlist(ch)}")
        nb = [len(c) for c in chunks]
        keys = [list(k) for k in ChunkKeys(chunks)]
        parts.append(f"natlist2_eqb (blocks {cnatlist(nb)}) {cnatlist2(keys)}")
        total = len(keys)
        start = r.randint(0, total)
        ks = [list(k) for k in ChunkKeys(chunks).range(start)]
        if nd > 0:   # ChunkKeys.range on a 0-d grid yields nothing (product_from with no pools); it has no caller in the library
            parts.append(f"natlist2_eqb (blocks_from {cnatlist(nb)} {start}) {cnatlist2(ks)}")
        if keys and nd > 0:
            b = r.choice(keys)
            sl = get_item(chunks, tuple(b))
            reg = "[" + "; ".join(f"({s.start}, {s.stop})" for s in sl) + "]"
            parts.append(f"regions_eqb (get_item {cnatlist2(chunks)} {cnatlist(b)}) {reg}")
            off = block_id_to_offset(tuple(b), tuple(nb))
            parts.append(f"Nat.eqb (ravel {cnatlist(nb)} {cnatlist(b)}) {off}")
            parts.append(f"natlist_eqb (unravel {cnatlist(nb)} {off}) {cnatlist(offset_to_block_id(off, tuple(nb)))}")
        desc = {"shape": shape, "chunksize": cs}
        cases.append({"expr": " && ".join(parts), "desc": desc, "show": f"blocks {cnatlist(nb)}"})
        if total > 1:
            ctx.nt(desc)
    ctx.corr("chunk_geometry", "Model.Util Model.Geometry", cases, chunk=300)


def run(ctx):
    warnings.filterwarnings("ignore")
    k_geometry(ctx)
    from harness.props import c13_events

    c13_events.run_events(ctx)


def search(ctx):
    pass


def replay(ctx, obj):
    print(json.dumps(obj, indent=1, default=str)[:4000])
    return 0
