"""C05 - every stored chunk has exactly one writer task, written whole; outputs covered."""
from __future__ import annotations

import itertools
import json
import warnings

import numpy as np

from harness import gen_programs as G
from harness.adv_executor import AdvExecutor
from harness.framework import cnatlist, pmap
from harness.obs import keys_term, parse_key
from harness.tracing_store import Trace, TracingStore, is_chunk_key

LEVEL = "proof"
TRANSLATED_KERNELS = ["_cumsum", "get_item"]   # harness/translate.py: the region a task writes for its block coordinates (key_to_slices -> get_item) re-translated from /repo on every run and proved equal to Model.Geometry.get_item
RULE = ("scenarios: generated programs (incl. multi-output unstack, reductions), rechunks under tight memory (multi-stage, regular and "
        "irregular intermediate grids), stores into existing Zarr arrays of other chunking / sharded, region stores; every plan runs "
        "on the sequential adversarial executor over tracing stores (intermediate store AND user targets) so each get/set is attributed "
        "to its task. O: one writer task per stored chunk key, no task reads a chunk it writes (no read-modify-write), every array of "
        "the plan has all its chunks initialised. K: Coq checkers oplan_ok on the observed read/write sets and, for ops with regular "
        "task and storage grids, the write set predicted by Model.StoreRegion.touched/writes_whole vs the observed one. "
        "non-trivial = op whose task grid differs from its storage grid, or >=2 ops; distinct = scenario description")
ASSUMPTIONS = ["a zarr partial-chunk write shows up as a get of that chunk key by the writing task (read-modify-write)"]
TRUSTED = ["tracing WrapperStore task attribution"]


def scenario(rng):
    import cubed
    import cubed.array_api as xp
    import zarr

    # every scenario has stores of its own: cubed's name counters are restarted so that generated names stay small and can
    # never reach the names of the user targets below (array-901 / array-902) in a long-running worker
    import cubed.core.array as _ca
    import cubed.core.plan as _cp
    _ca.sym_counter = 0
    _cp.sym_counter = 0
    trace = Trace()
    mk = lambda: TracingStore(zarr.storage.MemoryStore(), trace)
    kind = rng.choice(["program", "rechunk", "rechunk", "store-existing", "store-sharded", "region-store"])
    desc = {"kind": kind}
    targets = []
    if kind == "program":
        prog = G.gen_program(rng, nstmts=rng.randint(1, 5), allow_zero=False, maxlen=7)
        spec = cubed.Spec(allowed_mem="500MB", intermediate_store=mk())
        env = G.build(prog, spec)
        outs = [env[o] for o in prog["outs"]]
        desc["prog"] = prog
    else:
        nd = rng.choice([1, 2, 2, 3]) if kind == "rechunk" else rng.choice([1, 2])
        shape = tuple(rng.randint(2, 14) for _ in range(nd))
        src = tuple(rng.randint(1, n) for n in shape)
        transposing = kind == "rechunk" and rng.random() < 0.4
        if transposing:
            # skinny-to-skinny across two axes under a budget that forces a multi-stage plan (intermediate chunkings)
            shape = (rng.randint(12, 40), rng.randint(20, 64))
            src = (rng.choice([1, 1, 2, 3]), rng.randint(shape[1] // 2, shape[1]))
            if rng.random() < 0.5:
                shape, src = shape[::-1], src[::-1]
        data = np.arange(int(np.prod(shape)), dtype="int64").reshape(shape)
        if kind == "rechunk":
            tgt = tuple(rng.randint(1, n) for n in shape)
            if transposing:
                tgt = tuple(rng.choice([1, 1, 2, 3]) if c > 3 else rng.randint(max(1, n // 2), n) for n, c in zip(shape, src))
            need = 8 * max(int(np.prod(src)), int(np.prod(tgt)))
            allowed = need * rng.choice([5, 5, 6, 8, 20]) + rng.choice([0, 8, 64])
            irregular = rng.random() < 0.5
            min_mem = rng.choice([None, None, 8, need // 2])
            spec = cubed.Spec(allowed_mem=allowed, reserved_mem=0, intermediate_store=mk())
            a = xp.asarray(data, chunks=src, spec=spec)
            outs = [a.rechunk(tgt, min_mem=min_mem, allow_irregular=irregular)]
            desc.update(shape=shape, src=src, tgt=tgt, allowed_mem=allowed, allow_irregular=irregular, min_mem=min_mem, transposing=transposing)
        else:
            spec = cubed.Spec(allowed_mem="500MB", intermediate_store=mk())
            a = xp.asarray(data, chunks=src, spec=spec) + 0
            if kind == "region-store":
                big = tuple(n + rng.choice([0, c, 2 * c]) for n, c in zip(shape, src))
                offs = tuple(rng.choice([0, c]) if b > n else 0 for n, c, b in zip(shape, src, big))
                offs = tuple(o if o + n <= b else 0 for o, n, b in zip(offs, shape, big))
                za = zarr.create_array(store=mk(), name="array-901", shape=big, dtype="int64", chunks=src, fill_value=0)
                region = tuple(slice(o, o + n) for o, n in zip(offs, shape))
                outs = list(cubed.store(a, za, regions=region, compute=False))
                desc.update(shape=shape, src=src, target_shape=big, region=[(s.start, s.stop) for s in region])
            else:
                tch = tuple(rng.randint(1, n) for n in shape)
                kw = dict(chunks=tch)
                if kind == "store-sharded":
                    inner = tuple(next(d for d in range(rng.randint(1, c), 0, -1) if c % d == 0) for c in tch)
                    kw = dict(shards=tch, chunks=inner)
                za = zarr.create_array(store=mk(), name="array-902", shape=shape, dtype="int64", fill_value=0, **kw)
                outs = list(cubed.store(a, za, compute=False))
                desc.update(shape=shape, src=src, target=kw)
            targets.append(za)
    return desc, trace, outs, targets


def work(part, n):
    import cubed
    from cubed.storage.zarr import LazyZarrArray

    k = 0
    while k < n:
        try:
            with warnings.catch_warnings():
                warnings.simplefilter("ignore")
                desc, trace, outs, targets = scenario(part.rng)
                og = part.rng.random() < 0.5
                desc["optimize_graph"] = og
                plan = cubed.core.array.plan(*outs, optimize_graph=og)
                trace.clear()
                cubed.compute(*outs, executor=AdvExecutor(), optimize_graph=og, _return_in_memory_array=False)
        except (ValueError, NotImplementedError):
            continue
        except Exception:
            continue      # mid-run failures on fault-free runs belong to C17
        k += 1
        part.evaluations += 1
        part.count("scenario:" + desc["kind"])
        # ---- observations ------------------------------------------------------------------------
        writers = {}      # chunk key -> list of tasks
        per_task = {}
        order = []
        for (_, kind, key, info, task, t0, t1) in trace.events:
            if task is None or not is_chunk_key(key):
                continue
            o = per_task.get(task)
            if o is None:
                o = per_task[task] = {"reads": [], "writes": []}
                order.append(task)
            if kind == "get":
                o["reads"].append(key)
            elif kind == "set":
                o["writes"].append(key)
                writers.setdefault(key, []).append(task)
        for key, ts in writers.items():
            if len(set(ts)) > 1:
                part.fail("chunk-has-several-writers", f"{key} written by tasks {sorted(set(ts))[:3]}", desc)
            elif len(ts) > 1:
                part.fail("chunk-written-twice-by-one-task", f"{key} written {len(ts)} times by {ts[0]}", desc)
        sharded_prefixes = tuple(f"{t.path.strip('/')}/" for t in targets if getattr(t, "shards", None))
        for task, o in per_task.items():
            # zarr's sharding codec re-reads a shard at the edge of the array before writing it even when the write covers
            # every element of the shard (a library artefact, one writer, no hazard): for sharded targets the geometric
            # check (writes_whole, evaluated in Coq below) and the one-writer check decide instead
            rmw = {x for x in set(o["reads"]) & set(o["writes"]) if not (sharded_prefixes and x.startswith(sharded_prefixes))}
            if rmw:
                part.fail("read-modify-write", f"task {task} read {sorted(rmw)[:3]} which it also writes (partial chunk write)", desc)
        # coverage: every array of the plan fully initialised
        for name, d in plan.dag.nodes(data=True):
            t = d.get("target")
            if t is None or d.get("type") != "array":
                continue
            if isinstance(t, LazyZarrArray) or hasattr(t, "nchunks_initialized"):
                try:
                    za = t.open() if isinstance(t, LazyZarrArray) else t
                    if getattr(za, "shards", None):
                        continue   # sharded: initialised-chunk counts are per shard; contents are read back by C11
                    if hasattr(za, "nchunks_initialized") and za.ndim > 0 and za.nchunks_initialized != za.nchunks:
                        # a region store legitimately leaves chunks outside the region untouched
                        if desc["kind"] != "region-store" or name not in [o.name for o in outs]:
                            part.fail("output-not-covered", f"{name}: {za.nchunks_initialized}/{za.nchunks} chunks initialised after the run", desc)
                except Exception:
                    pass
        # ---- K: Coq side conditions on the observed sets ------------------------------------------
        by_op = {}
        for t in order:
            by_op.setdefault(t[0], []).append(t)
        pk = lambda key: parse_key(key)[:2]
        ops_terms = []
        for opname, ts in by_op.items():
            if opname == "create-arrays":
                continue
            ops_terms.append("[" + "; ".join(
                f"({keys_term(sorted(set(pk(x) for x in per_task[t]['reads'] if parse_key(x) and not (sharded_prefixes and x.startswith(sharded_prefixes)))))}, "
                f"{keys_term(sorted(set(pk(x) for x in per_task[t]['writes'] if parse_key(x))))})" for t in ts) + "]")
        if ops_terms:
            plan_t = "[" + "; ".join(ops_terms) + "]"
            part.case("observed", {"expr": f"oplan_ok {plan_t}", "desc": desc, "show": f"map oop_ok {plan_t}"})
        # ---- K: predicted write sets for ops with regular task / storage grids ----------------------
        nontrivial = len(by_op) >= 3
        for name, d in plan.dag.nodes(data=True):
            pop = d.get("primitive_op")
            if pop is None or name == "create-arrays" or pop.write_chunks is None:
                continue
            tgt = pop.target_array
            if isinstance(tgt, list):
                continue
            try:
                za = tgt.open() if isinstance(tgt, LazyZarrArray) else tgt
                st_chunks = tuple(za.shards) if getattr(za, "shards", None) else tuple(za.chunks)
            except Exception:
                continue   # rectilinear grid
            shape = tuple(za.shape)
            c = tuple(pop.write_chunks)
            if len(c) != len(shape) or len(shape) == 0 or desc["kind"] == "region-store":
                continue
            if c != st_chunks:
                nontrivial = True
            for task in by_op.get(name, [])[:8]:
                b = task[1]
                if len(b) != len(shape):
                    continue
                obs_keys = sorted(set(pk(x)[1] for x in per_task[task]["writes"]))
                pred = " ".join(f"(touched {n_} {c_} {t_} {b_})" for n_, c_, t_, b_ in zip(shape, c, st_chunks, b))
                whole = " && ".join(f"forallb (writes_whole {n_} {c_} {t_} {b_}) (touched {n_} {c_} {t_} {b_})" for n_, c_, t_, b_ in zip(shape, c, st_chunks, b))
                obs_t = "[" + "; ".join(cnatlist(kk) for kk in obs_keys) + "]"
                part.case("predicted", {"expr": f"natlist2_eqb (product [{pred.replace(') (', '); (')}]) {obs_t} && {whole}",
                                        "desc": {**desc, "op": name, "task": list(b), "task_chunks": c, "storage_chunks": st_chunks},
                                        "show": f"product [{pred.replace(') (', '); (')}]"})
        if nontrivial:
            part.nt(desc)
        part.sample({**{k2: v for k2, v in desc.items() if k2 != 'prog'}, "tasks": len(order), "ops": len(by_op)}, limit=1)


def run(ctx):
    warnings.filterwarnings("ignore")
    cases = pmap(ctx, work, [12] * (ctx.n(144, 3600) // 12), procs=12)
    ctx.corr("observed_write_sets", "Model.Util Model.Keys Model.Exec Model.ExecObs", cases.get("observed", []), chunk=100)
    ctx.corr("predicted_write_sets", "Model.Util Model.Geometry Model.StoreRegion", cases.get("predicted", []), chunk=300)


def search(ctx):
    pass


def replay(ctx, obj):
    print(json.dumps(obj, indent=1, default=str)[:4000])
    return 0
