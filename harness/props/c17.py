"""C17 - unsupported requests are refused up front; accepted plans do not fail mid-run."""
from __future__ import annotations

import json
import warnings

import numpy as np

from harness import gen_programs as G
from harness.framework import pmap
from harness.progrun import EXPLICIT, run_program

LEVEL = "proof"
RULE = ("generated programs that NumPy evaluates (all families of harness/gen_programs.py, sizes 0 and 1 included, differently "
        "chunked inputs) plus a malformed stream (bad axes, mismatched shapes, unsupported arguments); for each the phase "
        "(build / plan / execute) and type of any exception is recorded on fault-free runs; violation = AssertionError or another "
        "incidental exception at build/plan time, or ANY failure after execution started. K: Model.ShapeSem acceptance predicates "
        "(scan block counts, concat/stack shapes, region alignment via C11, dropped-axis guard via C15) vs the observed outcome "
        "class. non-trivial = program with a refusal or >=3 ops; distinct = distinct program")
ASSUMPTIONS = ["NumPy evaluating the expression defines 'NumPy can evaluate it'"]
TRUSTED = []


def input_class(sub):
    """A coarse class of the failing input, so that a known finding only covers the failure it describes."""
    try:
        sh = G.shadow_eval({**sub, "stmts": sub["stmts"][:-1]}) if len(sub["stmts"]) > 1 else None
        last = sub["stmts"][-1]
        env_shapes = {}
        import cubed
        env = G.build({**sub, "stmts": sub["stmts"][:-1], "outs": []}, cubed.Spec(allowed_mem="500MB"))
        arg = env[last["args"][0]]
        if last["op"] == "cumulative_sum":
            ax = last["kw"]["axis"]
            nb = arg.numblocks[ax]
            def ok(n):
                while n > 1:
                    s_ = min(5, n)
                    q = -(-n // s_)
                    if s_ * q != n:
                        return False
                    n = q
                return True
            return "block-count-not-m*5^e" if not ok(nb) else f"blocks={nb}"
        if 0 in arg.shape:
            return "zero-length-axis"
        return "other"
    except Exception:
        return "unclassified"


def culprit(prog, og):
    """First statement whose own value cannot be computed (sub-program up to it)."""
    for i, s in enumerate(prog["stmts"]):
        sub = {"inputs": prog["inputs"], "stmts": prog["stmts"][: i + 1], "outs": [s["var"]]}
        r = run_program(sub, optimize_graph=og, check_blocks=False)
        if r["phase"] not in ("ok",):
            return s["op"], sub
    return "?", prog


def classify(part, prog, r, og):
    desc = {"prog": prog, "optimize_graph": og}
    if r["phase"] == "numpy":
        return
    if r["phase"] in ("build", "plan"):
        if r.get("exc_obj_explicit"):
            part.count(f"declined-{r['phase']}:{r['exc_type']}")
            return
        op = "?"
        part.count(f"incidental-{r['phase']}:{r['exc_type']}")
        op, sub = culprit(prog, og)
        part.fail(f"{r['phase']}:{r['exc_type']}:{op}:{input_class(sub)}", f"{r['exc_type']} while building {op}: {r['exc']}", {**desc, "minimal": sub, "traceback": r["tb"]})
    elif r["phase"] == "execute":
        op, sub = culprit(prog, og)
        part.count(f"failed-mid-run:{r['exc_type']}")
        part.fail(f"execute:{r['exc_type']}:{op}", f"accepted plan failed after execution started ({r['exc_type']}: {r['exc']}) - culprit op {op}",
                  {**desc, "minimal": sub, "traceback": r["tb"]})
    else:
        part.count("ran")


def work(part, n):
    for _ in range(n):
        prog = G.gen_program(part.rng, maxlen=8)
        og = part.rng.random() < 0.5
        r = run_program(prog, optimize_graph=og, check_blocks=False)
        part.evaluations += 1
        for s in prog["stmts"]:
            part.count("op:" + s["op"])
        if len(prog["stmts"]) >= 3 or r["phase"] != "ok":
            part.nt(prog)
        part.sample({"stmts": prog["stmts"][:3], "phase": r["phase"], "exc": r["exc_type"]}, limit=1)
        classify(part, prog, r, og)


MALFORMED = [
    ("concat-mismatched", lambda xp, a, b: xp.concat([a, b[:, :2]], axis=0)),
    ("stack-mismatched", lambda xp, a, b: xp.stack([a, b[:2, :]])),
    ("bad-axis-sum", lambda xp, a, b: xp.sum(a, axis=5)),
    ("bad-axis-flip", lambda xp, a, b: xp.flip(a, axis=3)),
    ("reshape-wrong-size", lambda xp, a, b: xp.reshape(a, (5, 5))),
    ("matmul-inner-mismatch", lambda xp, a, b: xp.matmul(a, b[:3, :])),
    ("index-out-of-bounds", lambda xp, a, b: a[10, 0]),
    ("too-many-indices", lambda xp, a, b: a[0, 0, 0]),
    ("squeeze-non-unit", lambda xp, a, b: xp.squeeze(a, axis=0)),
    ("expand-dims-bad-axis", lambda xp, a, b: xp.expand_dims(a, axis=7)),
    ("permute-bad-axes", lambda xp, a, b: xp.permute_dims(a, (0, 0))),
    ("broadcast-incompatible", lambda xp, a, b: xp.broadcast_to(a, (3, 3))),
    ("add-incompatible-shapes", lambda xp, a, b: xp.add(a, b[:3, :3])),
    ("repeat-negative", lambda xp, a, b: xp.repeat(a, -1, axis=0)),
    ("rechunk-wrong-ndim", lambda xp, a, b: a.rechunk((2,))),
    ("take-bad-axis", lambda xp, a, b: xp.take(a, xp.asarray([0, 1]), axis=4)),
    ("cumulative-sum-no-axis-2d", lambda xp, a, b: xp.cumulative_sum(a)),
    ("roll-bad-axis", lambda xp, a, b: xp.roll(a, 1, axis=9)),
    ("tensordot-bad-axes", lambda xp, a, b: xp.tensordot(a, b, axes=5)),
    ("where-mismatched", lambda xp, a, b: xp.where(a > 0, a, b[:3, :])),
]


def malformed(ctx):
    import cubed
    import cubed.array_api as xp

    spec = cubed.Spec(allowed_mem="500MB")
    for name, f in MALFORMED:
        for chunks in ((2, 2), (4, 4), (1, 3)):
            a = xp.asarray(np.arange(16.0).reshape(4, 4), chunks=chunks, spec=spec)
            b = xp.asarray(np.arange(16.0).reshape(4, 4) + 1, chunks=chunks, spec=spec)
            ctx.evaluations += 1
            desc = {"malformed": name, "chunks": chunks}
            try:
                with warnings.catch_warnings():
                    warnings.simplefilter("ignore")
                    y = f(xp, a, b)
            except EXPLICIT:
                ctx.count("malformed-refused-at-build")
                ctx.nt(desc)
                continue
            except Exception as e:
                ctx.fail(f"build:{type(e).__name__}:malformed-{name}", f"malformed request {name} raised {type(e).__name__}: {e}", desc)
                continue
            try:
                with warnings.catch_warnings():
                    warnings.simplefilter("ignore")
                    y.compute()
                ctx.count("malformed-accepted-and-ran")      # numpy semantics may allow it
            except Exception as e:
                ctx.fail(f"execute:{type(e).__name__}:malformed-{name}", f"malformed request {name} was accepted and failed mid-run: {type(e).__name__}: {e}", desc)


def run(ctx):
    warnings.filterwarnings("ignore")
    pmap(ctx, work, [25] * (ctx.n(300, 10000) // 25), procs=12)
    malformed(ctx)
    from harness.props import c17_model
    c17_model.run_model(ctx)


def search(ctx):
    pass


def replay(ctx, obj):
    """Re-runs the (minimal) program of a replay file and prints the outcome."""
    rp = obj.get("replay", obj)
    prog = rp.get("minimal") or rp.get("prog")
    if not prog:
        print(json.dumps(obj, indent=1, default=str)[:5000])
        return 0
    r = run_program(prog, optimize_graph=rp.get("optimize_graph", True), check_blocks=False)
    print("phase:", r["phase"], "exception:", r["exc_type"], r["exc"])
    print(r.get("tb") or "")
    return 1 if r["phase"] in ("execute",) or (r["phase"] in ("build", "plan") and not r.get("exc_obj_explicit")) else 0
