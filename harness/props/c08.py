"""C08 - task failures are retried and surfaced, never dropped; one result per task."""
from __future__ import annotations

import json
import os

from harness.amsim import Sim
from harness.framework import cbool, cnat

LEVEL = "proof"
RULE = ("scripts = discrete-event simulations of the real async_map_unordered (n inputs, batch size, backups on/off, "
        "per-future duration+outcome, simultaneous completions, shuffled iteration orders, scripted or real backup policy); "
        "a script is non-trivial when it contains a failure, a backup launch, a simultaneous completion group or a batch refill; "
        "distinct = distinct (config, recorded script)")
ASSUMPTIONS = [
    "asyncio.wait reports a subset of pending futures that are done; a future's outcome is fixed when it completes",
    "a future completing between asyncio.wait returning and the for-loop inspecting its twin is not modelled (benign: see DESIGN.md#C08)",
    "tenacity Retrying(reraise=True, stop_after_attempt(k)) calls the function until it returns or k attempts were made",
]
TRUSTED = ["scripted asyncio.wait/time/should_launch_backup shims in harness/amsim.py (module-attribute patching)"]

MODEL_CFG = os.environ.get("C08_MODEL_CFG", "fixed_cfg")  # the model of the code as it should be


def wake_term(w):
    f = "[" + "; ".join(f"({a}, {cbool(b)})" for a, b in w["fin"]) + "]"
    e = "[" + "; ".join(f"({a}, {cbool(b)})" for a, b in w["exam"]) + "]"
    return f"W {f} {e}"


def case_of(plan, sim):
    scripted = plan["policy"] != "real"
    cfg = f"({MODEL_CFG} {cbool(plan['use_backups'])} {'None' if plan['batch'] is None else '(Some %d)' % plan['batch']} {cbool(scripted)})"
    script = "[" + "; ".join(wake_term(w) for w in sim.wakes) + "]"
    st = {"running": (0, 0), "done": (1, 0), "crashed": (3, 0)}.get(sim.status)
    if sim.status == "raised":
        st = (2, sim.err)
    yields = "[" + "; ".join(str(int(y)) for y in sim.yields) + "]"
    subs = "[" + "; ".join(f"({f}, ({i}, {cbool(b)}))" for f, i, b in sim.subs) + "]"
    expr = f"check_run {cfg} {plan['n']} {script} ({st[0]}, {st[1]}) {yields} {subs}"
    show = f"let s := run {cfg} (seq 0 {plan['n']}) {script} in (status_code s, rev (map fst (yielded s)), rev (submitted s))"
    return expr, show


def describe(plan, sim):
    return {"n": plan["n"], "batch": plan["batch"], "use_backups": plan["use_backups"], "policy": plan["policy"],
            "futures": {str(k): [v["input"], v["backup"], v["finish"], v["ok"]] for k, v in sim.meta.items()},
            "wakes": sim.wakes, "status": sim.status, "err": sim.err, "yields": sim.yields}


def oracle(plan, sim):
    """The statement of C08 evaluated on the observed run. Returns list of (key, what)."""
    out = []
    n = plan["n"]
    meta = sim.meta
    ins = [meta[int(y)]["input"] for y in sim.yields]
    if len(set(ins)) != len(ins):
        out.append(("duplicate-delivery", f"inputs delivered more than once: {sorted(i for i in set(ins) if ins.count(i) > 1)}"))
    for y in sim.yields:
        if not meta[int(y)]["ok"]:
            out.append(("failed-delivered", f"future {y} failed but was yielded"))
    per_input = {}
    for f, i, b in sim.subs:
        per_input.setdefault(i, []).append((f, b))
    for i, l in per_input.items():
        if len(l) > 2 or sum(1 for _, b in l if b) > 1 or sum(1 for _, b in l if not b) != 1:
            out.append(("over-submission", f"input {i} submitted {l}"))
    if sim.status == "crashed":
        out.append(("internal-crash", f"map crashed with {sim.err}"))
    if sim.status == "raised":
        i = meta[sim.err]["input"]
        subs = per_input[i]
        # every submission of that input must have failed (or would fail: its outcome is fixed at creation)
        if any(meta[f]["ok"] for f, _ in subs):
            done_ok = [f for f, _ in subs if meta[f]["ok"] and sim.futs[f].done() and not sim.futs[f].cancelled()]
            if done_ok:
                out.append(("spurious-raise", f"raised failure of future {sim.err} (input {i}) although its twin {done_ok} succeeded"))
            else:
                will_ok = [f for f, _ in subs if meta[f]["ok"]]
                out.append(("premature-raise", f"raised failure of future {sim.err} (input {i}) while its twin {will_ok} was still running and succeeds"))
    if sim.status == "done":
        if sorted(ins) != list(range(n)):
            out.append(("not-one-result-per-input", f"done but delivered inputs {sorted(ins)} for n={n}"))
    return out


def gen_plan(rng, small):
    n = rng.choice([1, 2, 3, 4, 5]) if small else rng.choice([10, 11, 12, 15, 20, 24, 30, 40])
    batch = rng.choice([None, None, 1, 2, 3, n, n + 3]) if small else rng.choice([None, 4, 7, 10, 12, n, n + 5])
    use_backups = rng.random() < 0.8
    policy = "scripted" if small or rng.random() < 0.4 else "real"
    pfail = rng.choice([0.0, 0.0, 0.1, 0.3])
    pstrag = rng.choice([0.0, 0.1, 0.3])
    pans = rng.choice([0.1, 0.3, 0.7])
    window = rng.choice([0.0, 0.0, 0.5, 1.5])
    quant = rng.choice([1, 1, 2])

    def fut(fid, i, is_backup, r):
        ok = r.random() >= pfail
        dur = float(r.randint(1, 3 * quant) // quant)
        if r.random() < pstrag:
            dur = float(r.randint(8, 40))
        return dur, ok

    def answer(fid, r):
        return r.random() < pans

    return dict(n=n, batch=batch, use_backups=use_backups, policy=policy, fut=fut, answer=answer,
                window=window, max_wakes=300, params=dict(pfail=pfail, pstrag=pstrag, pans=pans, window=window))


def nontrivial(sim):
    has_fail = any(not ok for w in sim.wakes for _, ok in w["fin"])
    has_backup = any(b for _, _, b in sim.subs)
    has_group = any(len(w["fin"]) > 1 for w in sim.wakes)
    return has_fail, has_backup, has_group


def run(ctx):
    import random

    N = ctx.n(1500, 12000)
    cases = []
    for k in range(N):
        small = k % 3 != 0
        r = random.Random(ctx.rng.getrandbits(48))
        plan = gen_plan(r, small)
        sim = Sim(plan, r).run()
        ctx.evaluations += 1
        expr, show = case_of(plan, sim)
        d = describe(plan, sim)
        cases.append({"expr": expr, "show": show, "desc": d})
        hf, hb, hg = nontrivial(sim)
        ctx.count(f"status:{sim.status}")
        ctx.count("policy:" + plan["policy"])
        ctx.count("n<=5" if small else "n>=10")
        ctx.count("batched" if plan["batch"] is not None else "unbatched")
        if hf: ctx.count("with-failure")
        if hb: ctx.count("with-backup")
        if hg: ctx.count("with-simultaneous-completion")
        if hf or hb or hg:
            ctx.nt(json.dumps(d, sort_keys=True, default=str))
        if k < 3:
            ctx.sample(d)
        for key, what in oracle(plan, sim):
            ctx.fail(key, what, d)
    ctx.corr("async_map_unordered", "Model.Util Model.AsyncMap", cases, chunk=250)
    ctx.traces_validated = len(cases)
    retry_suite(ctx)
    e2e(ctx)


def retry_suite(ctx):
    """Real tenacity wrapper built by threads_create_futures_func vs Model.AsyncMap.retry."""
    import asyncio
    import concurrent.futures as cf

    from cubed.runtime.executors.local import threads_create_futures_func

    class InlineExecutor:
        def submit(self, fn, *a, **kw):
            f = cf.Future()
            try:
                f.set_result(fn(*a, **kw))
            except BaseException as e:
                f.set_exception(e)
            return f

    cases = []
    for retries in (0, 1, 2, 3):
        for k in range(0, 6):
            calls = []

            def fn(i, **kw):
                calls.append(i)
                if len(calls) <= k:
                    raise RuntimeError("boom")
                return "ok"

            async def go():
                cff = threads_create_futures_func(InlineExecutor(), fn, retries)
                (i, fut), = cff([7])
                try:
                    await fut
                    return True
                except RuntimeError:
                    return False

            ok = asyncio.run(go())
            ctx.evaluations += 1
            outcomes = "[" + "; ".join(["false"] * k + ["true"] * 3) + "]"
            cases.append({"expr": f"pair_eqb Nat.eqb Bool.eqb (retry {retries} {outcomes}) ({len(calls)}, {cbool(ok)})",
                          "show": f"retry {retries} {outcomes}",
                          "desc": {"retries": retries, "fails_first": k, "attempts": len(calls), "ok": ok}})
            if len(calls) > retries + 1:
                ctx.fail("too-many-attempts", f"{len(calls)} attempts with retries={retries}", {"retries": retries, "k": k})
            if ok != (k <= retries):
                ctx.fail("retry-outcome", f"retries={retries}, function fails {k} times, outcome ok={ok}", {"retries": retries, "k": k})
    ctx.corr("tenacity_retry", "Model.Util Model.AsyncMap", cases)


def e2e(ctx):
    """End to end on the real threads executor: a store whose chosen chunk write fails k times."""
    import numpy as np
    import zarr
    import cubed
    import cubed.array_api as xp
    from cubed.runtime.executors.local import ThreadsExecutor

    class FaultyStore(zarr.storage.WrapperStore):
        fails = {}
        attempts = {}

        async def set(self, key, value, *a, **kw):
            for pat in list(FaultyStore.fails):
                if key.endswith(pat):
                    FaultyStore.attempts[pat] = FaultyStore.attempts.get(pat, 0) + 1
                    if FaultyStore.fails[pat] > 0:
                        FaultyStore.fails[pat] -= 1
                        raise OSError(f"injected fault on {key}")
            return await super().set(key, value, *a, **kw)

        def with_read_only(self, read_only=False):
            return type(self)(self._store.with_read_only(read_only))

    reps = ctx.n(6, 40)
    for r in range(reps):
        retries = ctx.rng.choice([0, 1, 2])
        k = ctx.rng.choice([0, 1, 2, 3])
        store = FaultyStore(zarr.storage.MemoryStore())
        spec = cubed.Spec(allowed_mem="200MB", intermediate_store=store)
        a = xp.asarray(np.arange(16.0).reshape(4, 4), chunks=(2, 2), spec=spec)
        b = xp.negative(xp.add(a, 1))
        FaultyStore.fails = {"c/1/0": k}
        FaultyStore.attempts = {}
        try:
            res = b.compute(executor=ThreadsExecutor(retries=retries), optimize_graph=False)
            ok = bool(np.array_equal(res, -(np.arange(16.0).reshape(4, 4) + 1)))
            raised = False
        except OSError:
            ok, raised = False, True
        ctx.evaluations += 1
        ctx.count("e2e-fault-runs")
        first = FaultyStore.attempts.get("c/1/0", 0)
        d = {"retries": retries, "faults": k, "raised": raised, "ok": ok, "attempts_on_key": first}
        ctx.nt("e2e" + json.dumps(d))
        # the faulty key belongs to the first op; both ops write a key ending c/1/0, the fault budget is consumed in order
        if k <= retries and not ok:
            ctx.fail("e2e-retry-not-honoured", f"{k} faults <= retries={retries} but compute failed/raised", d)
        if k > retries and not raised:
            ctx.fail("e2e-failure-dropped", f"{k} faults > retries={retries} but compute did not raise (ok={ok})", d)


def search(ctx):
    """Extended search for a failing script when a proof or the correspondence broke."""
    import random

    for k in range(6000):
        r = random.Random(ctx.rng.getrandbits(48))
        plan = gen_plan(r, k % 2 == 0)
        sim = Sim(plan, r).run()
        ctx.evaluations += 1
        for key, what in oracle(plan, sim):
            ctx.fail(key, what, describe(plan, sim))
        if ctx.failures:
            return


def replay(ctx, obj):
    print(json.dumps(obj, indent=1)[:4000])
    return 0
