"""C06 - tasks are idempotent and independent of order, repetition and placement."""
from __future__ import annotations

import json
import warnings

import numpy as np

from harness import gen_programs as G
from harness.adv_executor import AdvExecutor
from harness.framework import pmap
from harness.obs import Built, keys_term

LEVEL = "proof"
RULE = ("generated programs are built once over a clearable in-memory tracing store; a reference run is compared (raw bytes of every "
        "stored chunk + results) with adversarial runs of the SAME plan: random task permutations, duplicated tasks (immediately and "
        "after downstream ops completed), each task shipped through cloudpickle; per task the tracing store gives the read/write "
        "sets, on which the Coq checkers oop_ok/oplan_ok/covers (hypotheses of op_schedule_irrelevant, late_reexecution_harmless) "
        "are evaluated; random-number arrays: re-execution identical, distinct blocks distinct. "
        "non-trivial = plan with >=2 pipeline ops and a schedule that differs from the canonical one; distinct = program x schedule seed")
ASSUMPTIONS = ["Zarr get/set of one key is atomic; codecs are deterministic (raw chunk bytes are compared)",
               "cloudpickle round-trips the task function, input and config it accepts"]
TRUSTED = ["tracing WrapperStore task attribution (thread-local set by the adversarial executor, tasks run sequentially)"]


def shuffled(name, tasks, rng):
    seq = list(tasks)
    rng.shuffle(seq)
    return seq


def with_dups(name, tasks, rng):
    seq = list(tasks)
    rng.shuffle(seq)
    out = []
    for m in seq:
        out.append(m)
        if rng.random() < 0.4:
            out.append(m)                      # immediate duplicate (retry)
    for _ in range(rng.randint(0, 2)):
        if seq:
            out.append(rng.choice(seq))        # duplicate after other tasks of the op (backup)
    return out


def model_case(b, part, desc):
    """Coq-side check of the side conditions on the observed read/write sets (reference run)."""
    obs, order = b.task_observations()
    by_op = {}
    for t in order:
        by_op.setdefault(t[0], []).append(t)
    ops_terms = []
    for opname, ts in by_op.items():
        if opname == "create-arrays":
            continue
        tt = "[" + "; ".join(f"({keys_term(obs[t]['reads'])}, {keys_term(sorted(set(obs[t]['writes'])))})" for t in ts) + "]"
        ops_terms.append(tt)
    plan = "[" + "; ".join(ops_terms) + "]"
    part.case("side_conditions", {"expr": f"oplan_ok {plan}", "desc": desc, "show": f"map oop_ok {plan}"})


def work(part, n):
    import random

    k = 0
    while k < n:
        prog = G.gen_program(part.rng, nstmts=part.rng.randint(1, 5), allow_zero=False, maxlen=7)
        og = part.rng.random() < 0.5
        try:
            b = Built(prog)
            ref_res = b.compute(AdvExecutor(), optimize_graph=og)
        except Exception:
            continue
        k += 1
        desc0 = {"prog": prog, "optimize_graph": og}
        ref = b.snapshot()
        model_case(b, part, desc0)
        obs, order = b.task_observations()
        npipe = len({t[0] for t in order if t[0] != "create-arrays"})
        # second execution of every task writes identical bytes: run all tasks twice in place
        variants = [("permute", dict(order=shuffled)), ("duplicates", dict(order=with_dups)),
                    ("late-duplicates", dict(order=shuffled, late_dups=0.5)),
                    ("pickle-ship", dict(order=shuffled, pickle_ship=True))]
        if part.tier == "quick":
            variants = [variants[i] for i in sorted(part.rng.sample(range(4), 2))]
        for vname, kw in variants:
            seed = part.rng.getrandbits(32)
            desc = {**desc0, "variant": vname, "schedule_seed": seed}
            part.evaluations += 1
            if vname == "pickle-ship":
                # shipped tasks need a store that survives pickling: an on-disk store, own reference run
                try:
                    bl = Built(prog, local=True)
                except Exception:
                    continue
                try:
                    lref_res = bl.compute(AdvExecutor(), optimize_graph=og)
                    lref = bl.snapshot()
                    bl.clear()
                    res = bl.compute(AdvExecutor(rng=random.Random(seed), **kw), optimize_graph=og)
                    snap = bl.snapshot()
                except Exception as e:
                    part.fail("adversarial-run-failed", f"{vname}: {type(e).__name__}: {e}", desc)
                    continue
                finally:
                    bl.close()
                cmp_ref, cmp_res = lref, lref_res
            else:
                b.clear()
                try:
                    res = b.compute(AdvExecutor(rng=random.Random(seed), **kw), optimize_graph=og)
                except Exception as e:
                    part.fail("adversarial-run-failed", f"{vname}: {type(e).__name__}: {e}", desc)
                    continue
                snap = b.snapshot()
                cmp_ref, cmp_res = ref, ref_res
            part.count("variant:" + vname)
            if npipe >= 2:
                part.nt(desc)
            if set(snap) != set(cmp_ref):
                part.fail("stored-keys-differ", f"{vname}: keys {sorted(set(snap) ^ set(cmp_ref))[:5]} differ from the reference run", desc)
                continue
            bad = [key for key in cmp_ref if cmp_ref[key] != snap[key] and not key.endswith("zarr.json")]
            if bad:
                part.fail("chunk-contents-differ", f"{vname}: {len(bad)} stored chunks differ from the reference run, e.g. {bad[:3]}", desc)
            for r0, r1 in zip(cmp_res, res):
                if not (np.asarray(r0).shape == np.asarray(r1).shape and np.array_equal(np.asarray(r0), np.asarray(r1), equal_nan=True)):
                    part.fail("result-differs", f"{vname}: final result differs from the reference run", desc)
        part.sample({"prog": prog["stmts"][:3], "tasks": len(order), "pipeline_ops": npipe}, limit=1)


def random_arrays(ctx):
    import random

    import cubed
    import cubed.random

    for _ in range(ctx.n(24, 160)):
        shape = tuple(ctx.rng.randint(2, 9) for _ in range(ctx.rng.choice([1, 2, 3, 3, 4])))
        if len(shape) >= 3:
            shape = tuple(min(n, 6) for n in shape)
        chunks = tuple(ctx.rng.randint(1, n) for n in shape)
        if len(shape) >= 3:
            chunks = tuple(ctx.rng.randint(1, max(1, n // 2)) for n in shape)      # several blocks along every axis
        prog = {"random": {"shape": shape, "chunks": chunks}}
        from harness.obs import Built as _B
        import zarr
        from harness.tracing_store import Trace, TracingStore

        trace = Trace()
        mem = zarr.storage.MemoryStore()
        spec = cubed.Spec(allowed_mem="500MB", intermediate_store=TracingStore(mem, trace))
        x = cubed.random.random(shape, chunks=chunks, spec=spec)
        y = x + 0
        with warnings.catch_warnings():
            warnings.simplefilter("ignore")
            r0 = y.compute(executor=AdvExecutor(), optimize_graph=False)
            snap0 = {k: bytes(v.to_bytes()) for k, v in mem._store_dict.items()}
            mem._store_dict.clear()
            r1 = y.compute(executor=AdvExecutor(rng=random.Random(ctx.rng.getrandbits(32)), order=with_dups, late_dups=0.5),
                           optimize_graph=False)
            snap1 = {k: bytes(v.to_bytes()) for k, v in mem._store_dict.items()}
        ctx.evaluations += 1
        ctx.count("random-array-runs")
        ctx.nt({"random": prog, "n": ctx.evaluations})
        if not np.array_equal(r0, r1) or any(snap0[k] != snap1.get(k) for k in snap0 if not k.endswith("zarr.json")):
            ctx.fail("random-not-reproducible", "random array blocks differ when tasks are re-executed / shipped", prog)
        # distinct blocks draw from distinct streams: no two blocks of equal shape are equal
        from cubed.utils import get_item
        blocks = {}
        nb = [len(c) for c in x.chunks]
        import itertools
        for bidx in itertools.product(*[range(n) for n in nb]):
            blk = r0[get_item(x.chunks, bidx)]
            blocks.setdefault(blk.shape, []).append(blk)
        for shp, bl in blocks.items():
            for i in range(len(bl)):
                for j in range(i + 1, len(bl)):
                    if bl[i].size >= 2 and np.array_equal(bl[i], bl[j]):
                        ctx.fail("random-blocks-share-stream", f"two blocks of shape {shp} hold identical random numbers", prog)


def k_random_streams(ctx):
    """K: the Philox key the real cubed.random._random derives for every block of drawn block grids (1-4-d) minus the root seed
    vs Model.Geometry.ravel (np.ravel_multi_index): the stream id of a block is its row-major offset"""
    import itertools

    import numpy.random as npr

    import cubed.random as cr
    from harness.framework import cnatlist

    cases = []
    real_philox = npr.Philox
    seen = []

    class RecordingPhilox(real_philox):
        def __init__(self, *a, key=None, **kw):
            seen.append(key)
            super().__init__(*a, key=key, **kw)

    npr.Philox = RecordingPhilox
    try:
        for _ in range(ctx.n(40, 400)):
            nd = ctx.rng.choice([1, 2, 3, 3, 4])
            nb = [ctx.rng.randint(1, 4) for _ in range(nd)]
            root = ctx.rng.getrandbits(64)
            ids = []
            for b in itertools.product(*[range(n) for n in nb]):
                seen.clear()
                cr._random(np.empty((1,) * nd), numblocks=tuple(nb), root_seed=root, block_id=tuple(b))
                ids.append(int(seen[-1]) - root)
            ctx.evaluations += 1
            if len(ids) >= 4:
                ctx.nt(("random-grid", tuple(nb)))
            cases.append({"expr": f"natlist_eqb (map (ravel {cnatlist(nb)}) (blocks {cnatlist(nb)})) {cnatlist(ids)}", "desc": {"numblocks": nb},
                          "show": f"map (ravel {cnatlist(nb)}) (blocks {cnatlist(nb)})"})
    finally:
        npr.Philox = real_philox
    ctx.corr("random_stream_ids", "Model.Util Model.Geometry", cases, chunk=200)


def run(ctx):
    warnings.filterwarnings("ignore")
    k_random_streams(ctx)
    N = ctx.n(72, 1800)
    per = 6
    cases = pmap(ctx, work, [per] * (N // per), procs=12)
    ctx.corr("task_side_conditions", "Model.Util Model.Keys Model.Exec Model.ExecObs", cases.get("side_conditions", []), chunk=100)
    random_arrays(ctx)


def search(ctx):
    pass


def replay(ctx, obj):
    print(json.dumps(obj, indent=1, default=str)[:4000])
    return 0
