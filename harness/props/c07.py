"""C07 - executors never let a task read data its producers have not finished writing."""
from __future__ import annotations

import json
import os
import shutil
import tempfile
import warnings

import networkx as nx

from harness import gen_programs as G
from harness.framework import cnatlist, cnatlist2, pmap
from harness.runs import node_id, pairs_term, pick_config, run_with_events, trace_term
from harness.tracing_store import Trace, TracingStore, is_chunk_key

LEVEL = "proof"
TRANSLATED_KERNELS = ["skip_node", "visit_nodes", "visit_node_generations"]   # harness/translate.py: cubed/runtime/pipeline.py re-translated from /repo on every run and proved equal to Model.Events.visit_nodes / visit_generations
RULE = ("generated programs (independent branches, diamonds, chains with unequal task counts, several outputs) run on the real "
        "single-threaded / threads / processes executors with compute_arrays_in_parallel, batch_size, max_workers drawn, through a "
        "tracing store that injects random write latency; K: networkx's topological order / generations of the finalized DAG are "
        "accepted by the Coq checkers is_topo_order / is_generations, and the callback trace by barrier_ok + events_ok; O: at store "
        "level every chunk read of a produced array hits and starts after the last chunk write of that array ended, and the array's "
        "metadata is written before any of its chunks. non-trivial = >=2 dependent pipeline ops; distinct = program x configuration")
ASSUMPTIONS = ["Zarr get/set of one key is atomic and strongly consistent (cubed's storage assumption)",
               "use_backups is off (non-atomic stores are outside the property's configuration list)",
               "callbacks run on the driver; CLOCK_MONOTONIC is shared by worker processes"]
TRUSTED = ["tracing WrapperStore timestamps"]


def array_of(key):
    return key.split("/")[0]


def work(part, n):
    import zarr

    k = 0
    while k < n:
        prog = G.gen_program(part.rng, nstmts=part.rng.randint(2, 6), allow_zero=False, maxlen=8, ninputs=part.rng.choice([1, 2, 3]))
        exname, kw = pick_config(part.rng, allow_processes=(part.tier == "thorough" or part.rng.random() < 0.1))
        og = part.rng.random() < 0.5
        desc = {"prog": prog, "executor": exname, "kwargs": kw, "optimize_graph": og}
        tmp = None
        import random as _r
        lat = _r.Random(part.rng.getrandbits(32))
        if exname == "processes":
            tmp = tempfile.mkdtemp(prefix="c07_", dir="/dev/shm" if os.path.isdir("/dev/shm") else None)
            trace = Trace(logfile=os.path.join(tmp, "trace.log"))
            store = TracingStore(zarr.storage.LocalStore(os.path.join(tmp, "store")), trace)
        else:
            trace = Trace()
            store = TracingStore(zarr.storage.MemoryStore(), trace)
            trace.latency = lambda kind, key: (lat.random() * 0.004 if kind == "set" and is_chunk_key(key) and lat.random() < 0.5 else 0)
        try:
            try:
                r = run_with_events(prog, exname, kw, og, store=store)
            except Exception:
                continue      # refusals / mid-run failures: C17
            k += 1
            part.evaluations += 1
            part.traces_validated += 1
            dag = r["dag"]
            # K(a): networkx orders accepted by the verified checkers
            order = [node_id(x) for x in nx.topological_sort(dag)]
            gens = [[node_id(x) for x in g] for g in nx.topological_generations(dag)]
            nodes, edges = r["nodes"], r["edges"]
            deps = f"(op_deps (fun n => mem_nat n {cnatlist(r['is_op'])}) {pairs_term(edges)})"
            nt = sorted((i, o["num_tasks"]) for i, o in r["ops"].items())
            expr = (f"is_topo_order {cnatlist(nodes)} {pairs_term(edges)} {cnatlist(order)} && "
                    f"is_generations {cnatlist(nodes)} {pairs_term(edges)} {cnatlist2(gens)} && "
                    f"barrier_ok {deps} {trace_term(r['events'])} && events_ok {pairs_term(nt)} {trace_term(r['events'])}")
            part.case("schedule", {"expr": expr, "desc": desc,
                                   "show": f"(is_topo_order {cnatlist(nodes)} {pairs_term(edges)} {cnatlist(order)}, barrier_ok {deps} {trace_term(r['events'])})"})
            # K(c): the real visit_nodes / visit_node_generations on the DAG with a random set of nodes marked
            # "computed" (what resume does) against Model.Events.visit_nodes / visit_generations
            from cubed.runtime.pipeline import visit_node_generations, visit_nodes
            d2 = dag.copy()
            computed = []
            for nme, nd in d2.nodes(data=True):
                flag = nd.get("pipeline") is None or (nme != "create-arrays" and part.rng.random() < 0.4)
                nd["computed"] = flag
                if flag:
                    computed.append(node_id(nme))
            vn = [node_id(nme) for nme, _ in visit_nodes(d2)]
            vg = [sorted(node_id(nme) for nme, _ in g) for g in visit_node_generations(d2)]
            skipf = f"(fun n => mem_nat n {cnatlist(computed)})"
            gens_sorted = [sorted(g) for g in gens]
            part.case("visit", {"expr": f"natlist_eqb (visit_nodes {skipf} {cnatlist(order)}) {cnatlist(vn)} && "
                                        f"natlist2_eqb (map sort_nat (visit_generations {skipf} {cnatlist2(gens_sorted)})) {cnatlist2(vg)}",
                                "desc": {**desc, "computed": computed},
                                "show": f"(visit_nodes {skipf} {cnatlist(order)}, visit_generations {skipf} {cnatlist2(gens_sorted)})"})
            npipe = len(r["ops"])
            part.count("executor:" + exname)
            part.count("parallel-arrays" if kw.get("compute_arrays_in_parallel") else "sequential-arrays")
            part.count(f"pipeline-ops:{min(npipe, 8)}")
            if npipe >= 3:
                part.nt(desc)
            part.sample({"executor": exname, "kwargs": kw, "ops": nt, "events": r["events"][:10]}, limit=1)
            # O: store-level
            evs = trace.load_log() if exname == "processes" else list(trace.events)
            last_set, first_get, meta_set, first_chunk_set = {}, {}, {}, {}
            for (_, kind, key, info, task, t0, t1) in evs:
                a = array_of(key)
                if kind == "set" and is_chunk_key(key):
                    last_set[a] = max(last_set.get(a, 0), t1)
                    first_chunk_set[a] = min(first_chunk_set.get(a, t0), t0)
                elif kind == "set" and key.endswith("zarr.json"):
                    meta_set[a] = min(meta_set.get(a, t1), t1)
                elif kind == "get" and is_chunk_key(key):
                    first_get[a] = min(first_get.get(a, t0), t0)
                    if str(info) == "miss":
                        part.fail("chunk-read-missed", f"{exname} {kw}: read of {key} fell back to the fill value", desc)
            for a, tg in first_get.items():
                if a in last_set and tg < last_set[a]:
                    part.fail("read-before-last-write", f"{exname} {kw}: a chunk of {a} was read {last_set[a] - tg} ns before its last chunk write ended", desc)
            for a, tcs in first_chunk_set.items():
                if a in meta_set and tcs < meta_set[a]:
                    part.fail("chunk-before-metadata", f"{exname} {kw}: chunk of {a} written before the array was created", desc)
        finally:
            if tmp:
                shutil.rmtree(tmp, ignore_errors=True)


def resume_parallel(ctx):
    """Interrupted run, then resume on the threads executor with compute_arrays_in_parallel: same store-level oracle."""
    import random

    from cubed.runtime.create import create_executor

    from harness.adv_executor import AdvExecutor
    from harness.obs import Built
    from harness.tracing_store import CrashNow

    done = 0
    tries = 0
    while done < ctx.n(12, 120) and tries < 400:
        tries += 1
        prog = G.gen_program(ctx.rng, nstmts=ctx.rng.randint(3, 6), allow_zero=False, maxlen=7)
        try:
            b = Built(prog)
            ref = b.compute(AdvExecutor(), optimize_graph=False)
        except Exception:
            continue
        T = len(b.task_observations()[1])
        if T < 4:
            continue
        at = ctx.rng.randint(1, T - 1)
        b.clear()
        try:
            b.compute(AdvExecutor(crash_after_tasks=at), optimize_graph=False)
        except CrashNow:
            pass
        except Exception:
            continue
        b.trace.clear()
        lat = random.Random(ctx.rng.getrandbits(32))
        b.trace.latency = lambda kind, key: (lat.random() * 0.004 if kind == "set" and is_chunk_key(key) else 0)
        desc = {"prog": prog, "crash_after_tasks": at, "resume": "threads + compute_arrays_in_parallel"}
        ctx.evaluations += 1
        try:
            res = b.compute(create_executor("threads"), optimize_graph=False, resume=True) if False else None
            import cubed
            res = cubed.compute(*b.outs, executor=create_executor("threads"), optimize_graph=False, resume=True,
                                compute_arrays_in_parallel=True)
        except NotImplementedError:
            ctx.count("resume-refused")
            continue
        except Exception as e:
            ctx.fail("resume-parallel-failed", f"{type(e).__name__}: {e}", desc)
            continue
        done += 1
        ctx.count("resume-parallel-runs")
        ctx.nt(desc)
        last_set, first_get = {}, {}
        for (_, kind, key, info, task, t0, t1) in b.trace.events:
            a = array_of(key)
            if kind == "set" and is_chunk_key(key):
                last_set[a] = max(last_set.get(a, 0), t1)
            elif kind == "get" and is_chunk_key(key):
                first_get[a] = min(first_get.get(a, t0), t0)
                if str(info) == "miss":
                    ctx.fail("chunk-read-missed", f"resumed parallel run: read of {key} fell back to the fill value", desc)
        for a, tg in first_get.items():
            if a in last_set and tg < last_set[a]:
                ctx.fail("read-before-last-write", f"resumed parallel run: a chunk of {a} was read before its last chunk write ended", desc)
        import numpy as np
        for r0, r1 in zip(ref, res):
            if not (np.asarray(r0).shape == np.asarray(r1).shape and np.array_equal(np.asarray(r0), np.asarray(r1), equal_nan=True)):
                ctx.fail("resume-parallel-result-differs", "resumed parallel run gives a different result", desc)


def run(ctx):
    warnings.filterwarnings("ignore")
    N = ctx.n(96, 2400)
    per = 8
    cases = pmap(ctx, work, [per] * (N // per), procs=12)
    ctx.corr("schedule_and_barrier", "Model.Util Model.Events", cases.get("schedule", []), chunk=150)
    ctx.corr("visit_nodes_with_computed_flags", "Model.Util Model.Events Model.DagObs", cases.get("visit", []), chunk=150)
    resume_parallel(ctx)


def search(ctx):
    pass


def replay(ctx, obj):
    print(json.dumps(obj, indent=1, default=str)[:4000])
    return 0
