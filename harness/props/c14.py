"""C14 - rechunk plans are well-formed, aligned and memory-bounded for every geometry."""
from __future__ import annotations

import json
import math
import warnings

import numpy as np

from harness.framework import cZ, cZlist, clist, pmap

LEVEL = "proof"
TRANSLATED_KERNELS = ["_fix_copy_chunks", "_calculate_shared_chunks", "_count_intermediate_chunks", "calculate_single_stage_io_ops"]   # harness/translate.py: re-translated from /repo on every run and proved equal to the model
RULE = ("geometries (shape 1-3 dims, source chunks, target chunks, itemsize, min_mem, max_mem, allow_irregular) drawn from "
        "ranges that force 1..5 stages; the real planner functions are run with recording wrappers around the float-based "
        "stage-value functions (np.geomspace+floor / _multspace) and Model.Rechunk is evaluated with those recorded values; "
        "non-trivial = accepted plan with >=2 copy stages or a consolidation that changed the chunks or a rejection; distinct = distinct geometry")
ASSUMPTIONS = ["float division max_mem / chunk_mem followed by int() or '> 1' equals integer division/comparison (byte counts < 2^52)",
               "np.geomspace/floor stage values are taken from the implementation (oracle), their contracts checked per case"]
TRUSTED = ["harness/translate.py (fail-closed Python-ast -> Gallina translator for _fix_copy_chunks, _calculate_shared_chunks, _count_intermediate_chunks; Python int = Z, // and % = Z.div / Z.modulo, ceil(a / b) = cdiv on positive ints)", ]


def gen_transpose_like(rng):
    """big chunks along one axis -> big chunks along the other, little memory: forces several stages."""
    nd = rng.choice([2, 2, 3])
    shape = [rng.choice([rng.randint(20, 400), rng.randint(300, 20000)]) for _ in range(nd)]
    a, b = rng.sample(range(nd), 2)
    src = [rng.randint(1, 3) for _ in shape]
    tgt = [rng.randint(1, 3) for _ in shape]
    src[a] = shape[a] if rng.random() < 0.5 else rng.randint(max(1, shape[a] // 3), shape[a])
    tgt[b] = shape[b] if rng.random() < 0.5 else rng.randint(max(1, shape[b] // 3), shape[b])
    itemsize = rng.choice([1, 4, 8])
    need = max(itemsize * math.prod(src), itemsize * math.prod(tgt))
    max_mem = need * rng.choice([1, 1, 2, 3]) + rng.randint(0, need // 2)
    min_mem = max(itemsize, max_mem // rng.choice([2, 3, 5, 10, 20, 50]))
    return dict(shape=shape, src=src, tgt=tgt, itemsize=itemsize, min_mem=min_mem, max_mem=max_mem,
                regular=rng.random() < 0.5)


def gen_geometry(rng):
    if rng.random() < 0.4:
        return gen_transpose_like(rng)
    nd = rng.choice([1, 1, 2, 2, 3])
    big = rng.random() < 0.6
    shape = [rng.choice([rng.randint(1, 60), rng.randint(50, 5000), rng.randint(1000, 200000)]) if big else rng.randint(1, 40) for _ in range(nd)]
    def ch(n):
        r = rng.random()
        if r < 0.2:
            return 1
        if r < 0.35:
            return n
        return rng.randint(1, n)
    src = [ch(n) for n in shape]
    tgt = [ch(n) for n in shape]
    itemsize = rng.choice([1, 2, 4, 8, 8, 16])
    need = max(itemsize * math.prod(src), itemsize * math.prod(tgt))
    r = rng.random()
    if r < 0.08:
        max_mem = max(1, need - rng.randint(1, max(1, need // 2)))       # rejected: too small
    elif r < 0.5:
        max_mem = need + rng.randint(0, need)
    else:
        max_mem = need * rng.choice([2, 3, 10, 100]) + rng.randint(0, 1000)
    r = rng.random()
    if r < 0.3:
        min_mem = itemsize
    elif r < 0.85:
        min_mem = max(1, rng.randint(1, max(1, max_mem // rng.choice([1, 2, 5, 20, 100]))))
    else:
        min_mem = max_mem + rng.randint(0, 10)                            # sometimes > max_mem (rejected)
    return dict(shape=shape, src=src, tgt=tgt, itemsize=itemsize, min_mem=min_mem, max_mem=max_mem,
                regular=rng.random() < 0.5)


def run_real(g):
    """Runs the real planner, recording the stage-value oracle. Returns (result, table)."""
    import importlib

    cr = importlib.import_module("cubed.core.rechunk")
    alg = importlib.import_module("cubed.vendor.rechunker.algorithm")

    table = []
    if g["regular"]:
        orig = cr.calculate_regular_stage_chunks

        def rec(read_chunks, write_chunks, stage_count=1):
            out = orig(read_chunks, write_chunks, stage_count)
            table.append([list(map(int, c)) for c in out])
            return out

        cr.calculate_regular_stage_chunks = rec
        fn = cr.multistage_regular_rechunking_plan
    else:
        orig = alg.calculate_stage_chunks

        def rec(read_chunks, write_chunks, stage_count=1):
            out = orig(read_chunks, write_chunks, stage_count)
            table.append([list(map(int, c)) for c in out])
            return out

        alg.calculate_stage_chunks = rec
        fn = alg.multistage_rechunking_plan
    try:
        with warnings.catch_warnings():
            warnings.simplefilter("ignore")
            plan = fn(tuple(g["shape"]), tuple(g["src"]), tuple(g["tgt"]), g["itemsize"], g["min_mem"], g["max_mem"])
        res = ("ok", [[list(map(int, r)), list(map(int, i)), list(map(int, w))] for r, i, w in plan])
    except ValueError:
        res = ("err", 1)
    except AssertionError:
        res = ("err", 2)
    except Exception as e:
        res = ("err", 7, repr(e))
    finally:
        if g["regular"]:
            cr.calculate_regular_stage_chunks = orig
        else:
            alg.calculate_stage_chunks = orig
    return res, table


def plan_term(res):
    if res[0] == "err":
        return f"(PErr {res[1]})"
    return "(POk [" + "; ".join(f"({cZlist(r)}, {cZlist(i)}, {cZlist(w)})" for r, i, w in res[1]) + "])"


def copies_real(g, plan):
    """cubed.core.ops._rechunk_plan's translation of stages into (copy, target) pairs (pure part re-run on the real stages)."""
    out = []
    tgt = tuple(g["tgt"])
    for i, (r, it, w) in enumerate(plan):
        last = i == len(plan) - 1
        t_ = tgt if last else tuple(w)
        if tuple(r) == tuple(w):
            out.append((tuple(r), t_))
        else:
            out.append((tuple(r), tuple(it)))
            if last:
                out.append((tuple(w), t_))
    return out


DTYPES = {1: "int8", 2: "int16", 4: "int32", 8: "float64", 16: "complex128"}


def real_copies(g):
    """The REAL cubed.core.ops._rechunk_plan on a virtual array with this geometry; the Spec is chosen so that the planner's
    max_mem is exactly g['max_mem'] ((allowed - reserved) // 5 for local storage)."""
    import cubed
    import cubed.array_api as xp
    from cubed.core.ops import _rechunk_plan

    spec = cubed.Spec(allowed_mem=5 * g["max_mem"], reserved_mem=0)
    x = xp.empty(tuple(g["shape"]), dtype=DTYPES[g["itemsize"]], chunks=tuple(g["src"]), spec=spec)
    try:
        with warnings.catch_warnings():
            warnings.simplefilter("ignore")
            return [(tuple(int(v) for v in c), tuple(int(v) for v in t))
                    for c, t in _rechunk_plan(x, tuple(g["tgt"]), min_mem=g["min_mem"], allow_irregular=not g["regular"])]
    except Exception:
        return None


def oracle(part, g, res, desc):
    """C14's statement evaluated on the real planner output."""
    if res[0] == "err":
        if res[1] == 7:
            part.fail("planner-incidental-exception", f"planner raised {res[2]}", desc)
        if res[1] == 2:
            part.fail("planner-assertion", "planner ended with an AssertionError (MAX_STAGES or internal assert)", desc)
        return
    plan = res[1]
    its, mx = g["itemsize"], g["max_mem"]
    if not plan:
        part.fail("empty-plan", "planner returned no stage", desc)
        return
    for k, (r, i, w) in enumerate(plan):
        for nm, c in (("read", r), ("intermediate", i), ("write", w)):
            if its * math.prod(c) > mx:
                part.fail("stage-exceeds-max-mem", f"stage {k} {nm} chunks {c} need {its * math.prod(c)} > max_mem {mx}", desc)
            if any(x < 1 for x in c):
                part.fail("nonpositive-chunk", f"stage {k} {nm} chunks {c}", desc)
    # chaining: each stage reads what the previous wrote
    for a, b in zip(plan, plan[1:]):
        if a[2] != b[0]:
            part.fail("stages-not-chained", f"{a[2]} then {b[0]}", desc)
    # alignment of every copy with the chunks it writes
    shape = g["shape"]
    for cc, tc in copies_real(g, plan):
        for n, c, t in zip(shape, cc, tc):
            if g["regular"] and not (c == n or c % t == 0 or c >= n):
                part.fail("copy-not-aligned-with-target", f"copy chunks {cc} vs target chunks {tc} (axis size {n})", desc)


def work(part, n):
    from cubed.core.ops import split_chunksizes

    for _ in range(n):
        g = gen_geometry(part.rng)
        res, table = run_real(g)
        part.evaluations += 1
        desc = dict(g)
        tab = "[" + "; ".join(clist(st, cZlist) for st in table) + "]"
        args = (f"{cbool(g['regular'])} {cZlist(g['shape'])} {cZlist(g['src'])} {cZlist(g['tgt'])} "
                f"{cZ(g['itemsize'])} {cZ(g['min_mem'])} {cZ(g['max_mem'])} {tab}")
        expr = f"pres_plan_eqb (multistage_plan {args}) {plan_term(res)}"
        if res[0] == "ok" and tuple(g["src"]) != tuple(g["tgt"]):
            cps = real_copies(g)
            if cps is None:
                part.fail("rechunk-plan-raised", "_rechunk_plan raised although the planner accepted the geometry", desc)
                cps = copies_real(g, res[1])
            # the grid the last copy leaves in storage must be exactly the requested chunking
            if not g["regular"] and cps and max(g["shape"]) <= 20000:
                from cubed.core.ops import split_chunks
                from cubed.utils import normalize_chunks
                final = split_chunks(tuple(g["shape"]), cps[-1][0], cps[-1][1])
                want = normalize_chunks(tuple(g["tgt"]), shape=tuple(g["shape"]), dtype="int8")
                if tuple(tuple(int(v) for v in ax) for ax in final) != tuple(tuple(int(v) for v in ax) for ax in want):
                    part.fail("rechunk-result-not-requested-chunking",
                              f"last copy {cps[-1]} leaves an irregular grid, not the requested chunks {g['tgt']}", desc)
            cpt = "[" + "; ".join(f"({cZlist(a)}, {cZlist(b)})" for a, b in cps) + "]"
            expr += (f" && match multistage_plan {args} with POk p => copies_eqb (copies_of {cZlist(g['tgt'])} p) {cpt} | PErr _ => false end")
        part.case("plan", {"expr": expr, "desc": desc, "show": f"multistage_plan {args}"})
        part.count("regular" if g["regular"] else "irregular")
        part.count(f"dims:{len(g['shape'])}")
        if res[0] == "ok":
            part.count(f"stages:{min(len(res[1]), 6)}")
            part.count(f"stage_counts_tried:{min(len(table), 8)}")
            if len(res[1]) >= 2 or res[1][0][0] != g["src"] or res[1][-1][2] != g["tgt"]:
                part.nt(desc)
        else:
            part.count(f"rejected:{res[1]}")
            part.nt(desc)
        part.sample(desc, limit=1)
        oracle(part, g, res, desc)
        # split_chunksizes on this geometry's first axis (small sizes only)
        n0, sc, tc = g["shape"][0], g["src"][0], g["tgt"][0]
        if n0 <= 3000:
            real = [int(x) for x in split_chunksizes(n0, sc, tc)]
            part.case("split", {"expr": f"zlist_eqb (split_chunksizes {cZ(n0)} {cZ(sc)} {cZ(tc)}) {cZlist(real)}",
                                "desc": {"n": n0, "sc": sc, "tc": tc}, "show": f"split_chunksizes {cZ(n0)} {cZ(sc)} {cZ(tc)}"})
            if sum(real) != n0 or any(x <= 0 for x in real):
                part.fail("split-chunks-not-a-partition", f"split_chunksizes({n0},{sc},{tc}) = {real}", {"n": n0, "sc": sc, "tc": tc})


def cbool(b):
    return "true" if b else "false"


def e2e(ctx):
    """x.rechunk(t).compute() preserves every element and yields exactly the requested chunking."""
    import cubed
    import cubed.array_api as xp

    reps = ctx.n(60, 600)
    for _ in range(reps):
        nd = ctx.rng.choice([1, 2, 2, 3])
        shape = tuple(ctx.rng.randint(1, 14) for _ in range(nd))
        src = tuple(ctx.rng.randint(1, n) for n in shape)
        tgt = tuple(ctx.rng.randint(1, n) for n in shape)
        data = np.arange(int(np.prod(shape)), dtype="int64").reshape(shape)
        need = 8 * max(int(np.prod(src)), int(np.prod(tgt)))
        allowed = need * ctx.rng.choice([5, 5, 5, 6, 8, 20, 100]) + ctx.rng.choice([0, 8, 40, 200])
        spec = cubed.Spec(allowed_mem=allowed, reserved_mem=0)
        irregular = ctx.rng.random() < 0.5
        desc = dict(shape=shape, src=src, tgt=tgt, allowed_mem=allowed, allow_irregular=irregular)
        ctx.evaluations += 1
        try:
            a = xp.asarray(data, chunks=src, spec=spec)
            b = a.rechunk(tgt, allow_irregular=irregular)
        except (ValueError, NotImplementedError):
            ctx.count("e2e-declined")
            continue
        except Exception as e:
            ctx.fail("rechunk-build-incidental-exception", f"{type(e).__name__}: {e}", desc)
            continue
        try:
            res = b.compute()
        except ValueError as e:
            if "exceeds allowed_mem" in str(e):
                ctx.count("e2e-refused-memory")
                continue
            ctx.fail("rechunk-run-failed", f"{type(e).__name__}: {e}", desc)
            continue
        except Exception as e:
            ctx.fail("rechunk-run-failed", f"{type(e).__name__}: {e}", desc)
            continue
        ctx.count("e2e-computed")
        ctx.nt({"e2e": desc})
        if not np.array_equal(res, data):
            ctx.fail("rechunk-changes-values", "rechunked array differs from source", desc)
        from cubed.utils import normalize_chunks
        if b.chunks != normalize_chunks(tgt, shape, dtype=data.dtype):
            ctx.fail("rechunk-wrong-chunks", f"chunks {b.chunks} requested {tgt}", desc)


def run(ctx):
    N = ctx.n(1920, 24000)
    per = 160
    cases = pmap(ctx, work, [per] * (N // per), procs=12)
    ctx.corr("multistage_rechunking_plan", "Model.Util Model.Rechunk", cases.get("plan", []), chunk=250)
    ctx.corr("split_chunksizes", "Model.Util Model.Rechunk", cases.get("split", []), chunk=400)
    e2e(ctx)


def search(ctx):
    pass


def replay(ctx, obj):
    print(json.dumps(obj, indent=1, default=str)[:4000])
    return 0
