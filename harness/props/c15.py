"""C15 - blockwise block addressing follows the index expression, before and after fusion."""
from __future__ import annotations

import itertools
import json
import types
from collections.abc import Iterator

from harness.framework import cbool, cnatlist

LEVEL = "proof"
RULE = ("K1: index expressions over <=4 symbols, <=3 arguments (repeated arrays allowed), block counts {1,2,3}, new axes, "
        "contracted indices; every output coordinate evaluated on the real make_blockwise_back_key_function_flattened and on "
        "Model.BlockwiseKF. K2: fusion trees of depth <=3 over key-function shapes {map, list, iter, alternating, concat, mixed}; "
        "real fuse_multiple on real BlockwiseSpec/PrimitiveOperation objects whose functions build provenance token lists. "
        "non-trivial = has broadcasting, contraction, a repeated array, a new axis, or (K2) at least one fused predecessor; "
        "distinct = distinct case description")
ASSUMPTIONS = ["out_key.coords has one coordinate per output index",
               "unfused key functions return keys, lists of keys or iterators of keys (checked on every real op by C01's key-function suite)"]
TRUSTED = []

FIX_ANY = "true"   # the model of the repaired blockwise_fn_flattened (D15)


# ----------------------------------------------------------------------------- K1
def gen_expr(rng):
    nsym = rng.choice([1, 2, 2, 3, 3, 4])
    syms = list(range(nsym))
    nargs = rng.choice([1, 1, 2, 2, 3])
    dims = {s: rng.choice([1, 2, 3]) for s in syms}
    narr = rng.choice([nargs, max(1, nargs - 1)])  # sometimes an array is repeated
    args = []
    numblocks = {}
    for a in range(nargs):
        name = a if a < narr else rng.randrange(narr)
        if name in numblocks:
            ind = list(next(p[1] for p in args if p[0] == name))
            if rng.random() < 0.5:
                rng.shuffle(ind)
            nb = None
        else:
            k = rng.choice([0, 1, 1, 2, 2, 3]) if nsym >= 3 else rng.choice([0, 1, 2][: nsym + 1] or [0])
            k = min(k, nsym)
            ind = rng.sample(syms, k)
            nb = tuple(dims[s] if rng.random() < 0.75 else 1 for s in ind)
            if rng.random() < 0.04 and nb:
                nb = tuple(rng.choice([1, 2, 3]) for _ in ind)  # possibly misaligned
            numblocks[name] = nb
        args.append((name, tuple(ind)))
    used = sorted({s for _, ind in args for s in ind})
    mode = rng.random()
    if mode < 0.55:
        out = list(used)
        rng.shuffle(out)
    elif mode < 0.9:
        out = rng.sample(used, rng.randint(0, len(used))) if used else []
    else:
        out = list(used) + ([rng.choice(used)] if used else [])  # a repeated output index
    new_axes = {}
    if rng.random() < 0.25:
        s = nsym + 1
        pos = rng.randint(0, len(out))
        out.insert(pos, s)
        new_axes[s] = rng.choice([2, 5, (2, 2), (1, 1, 1)])
    # a repeated array must have consistent numblocks under its permuted index: recompute by symbol
    return dict(args=args, numblocks=numblocks, out=tuple(out), new_axes=new_axes)


def out_dims(e):
    dims = {}
    for name, ind in e["args"]:
        for s, nb in zip(ind, e["numblocks"][name]):
            dims[s] = max(dims.get(s, 1), nb)
    for s, v in e["new_axes"].items():
        dims[s] = len(v) if isinstance(v, tuple) else 1
    return [dims.get(s, 1) for s in e["out"]]


def real_kf(e):
    from cubed.primitive.blockwise import ChunkKey, make_blockwise_back_key_function_flattened

    pairs = []
    for name, ind in e["args"]:
        pairs.extend((f"a{name}", ind))
    numblocks = {f"a{n}": nb for n, nb in e["numblocks"].items()}
    try:
        kf = make_blockwise_back_key_function_flattened(
            lambda *a: None, "out", e["out"], *pairs, numblocks=numblocks, new_axes=dict(e["new_axes"]))
    except ValueError as ex:
        msg = str(ex)
        return ("err", 1 if "do not align" in msg else 2 if "dropped axis" in msg else 9), None

    def at(coords):
        try:
            fa = kf(ChunkKey("out", tuple(coords)))
            keys = []
            for k in fa.args:
                if not isinstance(k, ChunkKey) or not isinstance(k.name, str) or not all(isinstance(c, int) for c in k.coords):
                    return ("err", 3)
                keys.append((int(k.name[1:]), list(k.coords)))
            if fa.output_name != "out":
                return ("err", 8)
            return ("ok", keys)
        except Exception as ex:  # incidental failure inside the key function
            return ("err", 3 if isinstance(ex, (TypeError, AttributeError, IndexError)) else 7)

    return ("ok", None), at


def ref_keys(e, coords):
    """The statement of C15 for index expressions, written directly: argument a, axis n carrying index s reads block 0 when the
    argument has a single block there (broadcast / contracted), else the output coordinate at the last position of s."""
    out = list(e["out"])
    keys = []
    for name, ind in e["args"]:
        nb = e["numblocks"][name]
        cs = []
        for s_, n in zip(ind, nb):
            if n == 1 or s_ not in out:
                cs.append(0)
            else:
                cs.append(coords[len(out) - 1 - out[::-1].index(s_)])
        keys.append((name, cs))
    return keys


def coq_expr_terms(e):
    args = "[" + "; ".join(f"({n}, {cnatlist(ind)})" for n, ind in e["args"]) + "]"
    nbs = "[" + "; ".join(f"({n}, {cnatlist(nb)})" for n, nb in e["numblocks"].items()) + "]"
    na = "[" + "; ".join(f"({s}, {len(v) if isinstance(v, tuple) else 1})" for s, v in e["new_axes"].items()) + "]"
    return cnatlist(e["out"]), args, nbs, na


def keys_term(res):
    if res[0] == "err":
        return f"(Err {res[1]})"
    return "(Ok [" + "; ".join(f"({n}, {cnatlist(cs)})" for n, cs in res[1]) + "])"


def k1(ctx, n):
    cases = []
    seen = 0
    while seen < n:
        e = gen_expr(ctx.rng)
        seen += 1
        ctx.evaluations += 1
        built, at = real_kf(e)
        out, args, nbs, na = coq_expr_terms(e)
        desc = {"out": e["out"], "args": e["args"], "numblocks": {str(k): v for k, v in e["numblocks"].items()},
                "new_axes": {str(k): v for k, v in e["new_axes"].items()}}
        contracted = any(s not in e["out"] for _, ind in e["args"] for s in ind)
        bcast = any(nb == 1 for nbt in e["numblocks"].values() for nb in nbt)
        if built[0] == "err":
            ctx.count(f"k1-build-error-{built[1]}")
            expr = (f"match make_kf {out} {args} {nbs} {na} {FIX_ANY} with Err e => Nat.eqb e {built[1]} | Ok _ => false end")
            cases.append({"expr": expr, "desc": desc,
                          "show": f"match make_kf {out} {args} {nbs} {na} {FIX_ANY} with Err e => Some e | Ok _ => None end"})
            ctx.nt(desc)
            continue
        ctx.count("k1-built")
        if contracted: ctx.count("k1-contracted")
        if bcast: ctx.count("k1-broadcast")
        if e["new_axes"]: ctx.count("k1-new-axis")
        if len({n for n, _ in e["args"]}) < len(e["args"]): ctx.count("k1-repeated-array")
        if contracted or bcast or e["new_axes"]:
            ctx.nt(desc)
        dims = out_dims(e)
        parts = []
        for coords in itertools.product(*[range(d) for d in dims]):
            r = at(coords)
            if r[0] == "err" and r[1] in (3, 7, 8):
                ctx.fail("blockwise/malformed-keys",
                         f"key function built without error but returns malformed keys at {coords}", {**desc, "coords": coords})
            if r[0] == "ok":
                want = ref_keys(e, coords)
                if want != r[1]:
                    ctx.fail("blockwise/keys-not-designated-by-index-expression",
                             f"output block {coords}: key function returns {r[1]} but the index expression designates {want}",
                             {**desc, "coords": coords})
            parts.append(f"res_keys_eqb (f {cnatlist(coords)}) {keys_term(r)}")
            # the declarative reference (what blockwise_kf_spec proves) agrees as well
            parts.append(f"res_keys_eqb (f {cnatlist(coords)}) (Ok (ref_kf {out} {args} {nbs} {cnatlist(coords)}))")
        body = " && ".join(parts) if parts else "true"
        expr = f"match make_kf {out} {args} {nbs} {na} {FIX_ANY} with Ok f => {body} | Err _ => false end"
        c0 = [0] * len(dims)
        cases.append({"expr": expr, "desc": desc,
                      "show": f"match make_kf {out} {args} {nbs} {na} {FIX_ANY} with Ok f => Some (f {cnatlist(c0)}) | Err e => None end"})
        if len(ctx.samples) < 2:
            ctx.sample({"k1": desc})
    ctx.corr("blockwise_key_function", "Model.Util Model.Keys Model.BlockwiseKF", cases, chunk=300)


# ----------------------------------------------------------------------------- K2
def gen_desc(rng, srcs):
    kind = rng.choice(["map", "map", "list", "iter", "alt", "cat", "mixed"])
    s = lambda: rng.choice(srcs)
    if kind == "map":
        return ("map", [s() for _ in range(rng.randint(1, 3))])
    if kind in ("list", "iter"):
        return (kind, s(), rng.randint(1, 3))
    if kind == "alt":
        return ("alt", [s() for _ in range(rng.randint(1, 3))])
    if kind == "cat":
        return ("cat", s(), s())
    return ("mixed", s(), s(), rng.randint(1, 3))


def desc_sources(d):
    if d[0] in ("map", "alt"):
        return list(d[1])
    if d[0] in ("list", "iter"):
        return [d[1]]
    return [d[1], d[2]]


def gen_tree(rng, depth, counter):
    """Returns a nested dict: out, desc, fused (list of trees). Names: ops get fresh ids < 50, stored arrays >= 100."""
    out = counter[0]
    counter[0] += 1
    nsrc = rng.randint(1, 3)
    children = []
    srcs = []
    for _ in range(nsrc):
        if depth > 1 and rng.random() < 0.7:
            c = gen_tree(rng, depth - 1, counter)
            children.append(c)
            srcs.append(c["out"])
        else:
            srcs.append(100 + rng.randint(0, 3))
    d = gen_desc(rng, srcs)
    used = set(desc_sources(d))
    children = [c for c in children if c["out"] in used]
    # fuse a random non-empty subset of the op-produced sources (the rest are read from storage)
    fused = [c for c in children if rng.random() < 0.8]
    return {"out": out, "desc": d, "fused": fused, "unfused_ops": [c["out"] for c in children if c not in fused]}


def desc_term(d):
    if d[0] == "map":
        return f"(KD_map {cnatlist(d[1])})"
    if d[0] == "list":
        return f"(KD_list {d[1]} {d[2]})"
    if d[0] == "iter":
        return f"(KD_iter {d[1]} {d[2]})"
    if d[0] == "alt":
        return f"(KD_alt {cnatlist(d[1])})"
    if d[0] == "cat":
        return f"(KD_cat {d[1]} {d[2]})"
    return f"(KD_mixed {d[1]} {d[2]} {d[3]})"


def tree_term(t):
    return f"(OT {t['out']} {desc_term(t['desc'])} [" + "; ".join(tree_term(c) for c in t["fused"]) + "])"


def py_keyfun(d):
    from cubed.primitive.blockwise import ChunkKey, FunctionArgs

    def kf(k):
        cs = tuple(k.coords)
        c0 = cs[0] if cs else 0
        rest = cs[1:]
        nm = lambda s: f"n{s}"
        if d[0] == "map":
            args = [ChunkKey(nm(s), cs) for s in d[1]]
        elif d[0] == "list":
            args = [[ChunkKey(nm(d[1]), (c0 * d[2] + j,) + rest) for j in range(d[2])]]
        elif d[0] == "iter":
            args = [iter([ChunkKey(nm(d[1]), (c0 * d[2] + j,) + rest) for j in range(d[2])])]
        elif d[0] == "alt":
            n = len(d[1])
            args = [ChunkKey(nm(d[1][c0 % n]), (c0 // n,) + rest)]
        elif d[0] == "cat":
            args = [[ChunkKey(nm(d[1]), cs), ChunkKey(nm(d[2]), cs)]]
        else:
            args = [ChunkKey(nm(d[1]), cs),
                    iter([ChunkKey(nm(d[2]), (c0 * d[3] + j,) + rest) for j in range(d[3])])]
        return FunctionArgs(*args, output_name=k.name)

    return kf


def ser(v):
    if isinstance(v, list) and v and v[0] == "B":
        return v[1]
    if isinstance(v, list):
        return [2] + [t for x in v for t in ser(x)] + [3]
    if isinstance(v, Iterator):
        return [4] + [t for x in v for t in ser(x)] + [5]
    raise TypeError(f"unexpected value {v!r}")


def py_fun(fname):
    def f(*args):
        return ["B", [0, fname] + [t for a in args for t in ser(a)] + [1]]
    return f


def num_in(d):
    """one entry per source array (as in cubed: num_input_blocks is zipped with the predecessor ops)."""
    if d[0] in ("map", "alt"):
        return tuple(1 for _ in d[1])
    if d[0] in ("list", "iter"):
        return (d[2],)
    if d[0] == "cat":
        return (1, 1)
    return (1, d[3])


def arg_sources(d):
    return desc_sources(d)


def build_real(t):
    """Real PrimitiveOperation for tree t, fusing its 'fused' children with the real fuse_multiple."""
    from cubed.primitive.blockwise import BlockwiseSpec, apply_blockwise, fuse_multiple
    from cubed.primitive.types import PrimitiveOperation
    from cubed.runtime.types import CubedPipeline

    d = t["desc"]
    srcs = arg_sources(d)
    spec = BlockwiseSpec(py_keyfun(d), py_fun(t["out"]), num_in(d), (1,),
                         {f"n{s}": object() for s in set(desc_sources(d))}, {f"n{t['out']}": object()})
    op = PrimitiveOperation(
        pipeline=CubedPipeline(apply_blockwise, f"p{t['out']}", [[0]], spec),
        source_array_names=[f"n{s}" for s in srcs],
        target_array=types.SimpleNamespace(chunkmem=100 + t["out"]),
        projected_mem=1000 + 10 * t["out"], allowed_mem=10**9, reserved_mem=0, num_tasks=1)
    if not t["fused"]:
        return op
    fused_by_name = {c["out"]: build_real(c) for c in t["fused"]}
    preds = [fused_by_name.get(s) for s in srcs]
    return fuse_multiple(op, *preds)


def py_run_unfused(t, key):
    """Provenance when every fused predecessor is run as its own (real, unfused) blockwise spec."""
    from cubed.primitive.blockwise import map_nested

    fused = {f"n{c['out']}": c for c in t["fused"]}

    def read(k):
        if k.name in fused:
            return ["B", py_run_unfused(fused[k.name], k)]
        return ["B", [6, int(k.name[1:]), len(k.coords)] + list(k.coords)]

    fa = py_keyfun(t["desc"])(key)
    vals = map_nested(read, fa)
    return py_fun(t["out"])(*vals.args)[1]


def to_ktree(x):
    from cubed.primitive.blockwise import ChunkKey, FunctionArgs

    if isinstance(x, ChunkKey):
        return f"KLeaf ({int(x.name[1:])}, {cnatlist(x.coords)})"
    if isinstance(x, FunctionArgs):
        return f"KArgs {int(x.output_name[1:])} [" + "; ".join(to_ktree(a) for a in x.args) + "]"
    if isinstance(x, list):
        return "KList [" + "; ".join(to_ktree(a) for a in x) + "]"
    if isinstance(x, Iterator):
        return "KIter [" + "; ".join(to_ktree(a) for a in x) + "]"
    raise TypeError(repr(x))


def valid_for_real(t):
    return True


def k2(ctx, n):
    from cubed.primitive.blockwise import ChunkKey, map_nested

    cases = []
    made = 0
    while made < n:
        t = gen_tree(ctx.rng, ctx.rng.choice([1, 2, 2, 3, 3]), [1])
        if not valid_for_real(t):
            continue
        made += 1
        ctx.evaluations += 1
        op = build_real(t)
        spec = op.pipeline.config
        tt = tree_term(t)
        parts = []
        depth = lambda u: 1 + max([depth(c) for c in u["fused"]], default=0)
        dd = depth(t)
        ctx.count(f"k2-depth-{dd}")
        ctx.count("k2-shape-" + t["desc"][0])
        for coords in ([0, 0], [1, 0], [2, 1], [5]):
            key = ChunkKey(f"n{t['out']}", tuple(coords))
            fa = spec.back_key_function(key)
            kt = "[" + "; ".join(to_ktree(a) for a in fa.args) + "]"
            outn = int(fa.output_name[1:])
            fa2 = spec.back_key_function(key)
            vals = map_nested(lambda k: ["B", [6, int(k.name[1:]), len(k.coords)] + list(k.coords)], fa2)
            res = spec.function(*vals.args)
            parts.append(f"fargs_eqb (fused_keys {tt} ({t['out']}, {cnatlist(coords)})) ({outn}, {kt})")
            parts.append(f"natlist_eqb (fused_result {tt} ({t['out']}, {cnatlist(coords)})) {cnatlist(res[1])}")
            parts.append(f"natlist_eqb (run_tree {tt} ({t['out']}, {cnatlist(coords)})) {cnatlist(res[1])}")
            unf = py_run_unfused(t, key)
            if unf != res[1]:
                ctx.fail("fusion-changes-what-functions-receive",
                         f"output block {coords}: fused execution gives provenance {res[1][:40]}... but running the predecessors as separate operations gives {unf[:40]}...",
                         {"tree": t, "coords": coords})
        desc = {"tree": t}
        if dd > 1:
            ctx.nt(desc)
        cases.append({"expr": " && ".join(parts), "desc": desc,
                      "show": f"(fused_keys {tt} ({t['out']}, [1; 0]), fused_result {tt} ({t['out']}, [1; 0]))"})
        if made <= 2:
            ctx.sample({"k2": desc})
        # num_input_blocks of the fused spec
    ctx.corr("fuse_multiple_keys_and_provenance", "Model.Util Model.Keys Model.Fusion Model.FusionDSL", cases, chunk=150)


def run(ctx):
    k1(ctx, ctx.n(1200, 15000))
    k2(ctx, ctx.n(300, 4000))


def search(ctx):
    # the oracle of K1 (malformed keys) runs inside k1; widen it
    k1(ctx, 20000)


def replay(ctx, obj):
    print(json.dumps(obj, indent=1, default=str)[:4000])
    return 0
