"""C16 - building, planning and visualizing are lazy and free of side effects."""
from __future__ import annotations

import inspect
import json
import os
import shutil
import tempfile
import warnings

import numpy as np

LEVEL = "proof"
RULE = ("the public namespaces are introspected on every run (cubed.__all__, cubed.array_api.__all__, linalg, Array methods / "
        "operators / properties, cubed.random); every callable not in the short list of execution entry points is classified lazy by "
        "default and called with argument templates (first one that the function accepts, several draws) under: a tracing "
        "intermediate store (no set/delete may happen, no metadata), the raise-if-computes executor, an initially empty work "
        "directory that must stay empty; plan() and visualize() (to a scratch file) likewise; compositions of depth <= 3. "
        "K: the history machine Model.Api run on the same call sequence predicts no store effect for lazy calls. "
        "non-trivial = callable that returned a cubed array / plan; distinct = function x template")
ASSUMPTIONS = ["entry points allowed to execute: compute, store/to_zarr in eager mode, conversion to an in-memory value "
               "(__array__/__bool__/__int__/__float__/__index__/__complex__), indexing with a cubed array, take with array indices, "
               "measure_reserved_mem (it is compute by another name)"]
TRUSTED = ["tracing WrapperStore sees every access of the intermediate store"]

ENTRY_POINTS = {"compute", "store", "to_zarr", "measure_reserved_mem"}
SKIP = {"Callback", "Spec", "TaskEndEvent", "config", "random", "raise_if_computes", "linalg", "Array", "__array_namespace_info__"}


class Env:
    def __init__(self, rng):
        import cubed
        import zarr
        from harness.tracing_store import Trace, TracingStore

        self.tmp = tempfile.mkdtemp(prefix="c16_", dir="/dev/shm" if os.path.isdir("/dev/shm") else None)
        self.work = os.path.join(self.tmp, "work")
        os.makedirs(self.work)
        self.trace = Trace()
        self.store = TracingStore(zarr.storage.MemoryStore(), self.trace)
        self.spec = cubed.Spec(work_dir=self.work, intermediate_store=self.store, allowed_mem="200MB")
        self.spec_dir = cubed.Spec(work_dir=self.work, allowed_mem="200MB")     # arrays whose data would go to work_dir
        self.rng = rng

    def zarr_input(self):
        import zarr

        p = os.path.join(self.tmp, "in.zarr")
        za = zarr.create_array(store=p, shape=(4, 4), dtype="float64", chunks=(2, 2))
        za[...] = 1.0
        return p

    def effects(self):
        ev = [e for e in self.trace.events if e[1] in ("set", "delete")]
        files = []
        for root, dirs, fs in os.walk(self.work):
            files += [os.path.join(root, f) for f in fs] + [os.path.join(root, d) for d in dirs]
        return ev, files

    def close(self):
        shutil.rmtree(self.tmp, ignore_errors=True)


def arr(env, kind, spec=None):
    import cubed.array_api as xp

    spec = spec or env.spec
    r = env.rng
    if kind == "2d":
        return xp.asarray(np.arange(16.0).reshape(4, 4) + r.randint(0, 3), chunks=(r.choice([1, 2, 4]), 2), spec=spec)
    if kind == "1d":
        return xp.asarray(np.arange(6.0), chunks=(r.choice([2, 3, 6]),), spec=spec)
    if kind == "int2d":
        return xp.asarray(np.arange(16).reshape(4, 4), chunks=(2, 2), spec=spec)
    if kind == "bool2d":
        return xp.asarray(np.arange(16).reshape(4, 4) % 2 == 0, chunks=(2, 2), spec=spec)
    if kind == "lazy2d":
        return xp.negative(xp.asarray(np.arange(16.0).reshape(4, 4), chunks=(2, 2), spec=spec))
    if kind == "3d":
        return xp.asarray(np.arange(24.0).reshape(2, 3, 4), chunks=(1, 3, 2), spec=spec)
    if kind == "complex2d":
        return xp.asarray(np.arange(16.0).reshape(4, 4) * (1 + 2j), chunks=(2, 2), spec=spec)
    if kind == "tall":
        return xp.asarray(np.arange(24.0).reshape(8, 3) % 5 + 1, chunks=(4, 3), spec=spec)
    raise ValueError(kind)


TEMPLATES = [
    ("f(a)", lambda f, e: f(arr(e, "lazy2d"))),
    ("f(a,b)", lambda f, e: f(arr(e, "2d"), arr(e, "lazy2d"))),
    ("f(a,axis=0)", lambda f, e: f(arr(e, "2d"), axis=0)),
    ("f(a,1)", lambda f, e: f(arr(e, "2d"), 1)),
    ("f(a,(1,0))", lambda f, e: f(arr(e, "2d"), (1, 0))),
    ("f(a,2,axis=0)", lambda f, e: f(arr(e, "2d"), 2, axis=0)),
    ("f(a,0,1)", lambda f, e: f(arr(e, "3d"), 0, 1)),
    ("f(a,(8,2))", lambda f, e: f(arr(e, "2d"), (8, 2))),
    ("f([a,b])", lambda f, e: f([arr(e, "2d"), arr(e, "lazy2d")])),
    ("f(cond,a,b)", lambda f, e: f(arr(e, "bool2d"), arr(e, "2d"), arr(e, "2d"))),
    ("f(int)", lambda f, e: f(arr(e, "int2d"))),
    ("f(int,int)", lambda f, e: f(arr(e, "int2d"), arr(e, "int2d"))),
    ("f(bool)", lambda f, e: f(arr(e, "bool2d"))),
    ("f(bool,bool)", lambda f, e: f(arr(e, "bool2d"), arr(e, "bool2d"))),
    ("f(a1,b1)", lambda f, e: f(arr(e, "1d"), arr(e, "1d"))),
    ("f(shape)", lambda f, e: f((4, 4), chunks=(2, 2), spec=e.spec)),
    ("f(shape,fill)", lambda f, e: f((4, 4), 7.0, chunks=(2, 2), spec=e.spec)),
    ("f(n)", lambda f, e: f(5, chunks=2, spec=e.spec)),
    ("f(0,1,5)", lambda f, e: f(0.0, 1.0, 5, chunks=2, spec=e.spec)),
    ("f(a,dtype)", lambda f, e: f(arr(e, "2d"), np.float32)),
    ("f(a,dtype=float32)", lambda f, e: f(arr(e, "lazy2d"), dtype=np.float32)),
    ("f(a,dtype=int64,copy)", lambda f, e: f(arr(e, "lazy2d"), dtype=np.int64, copy=True)),
    ("f(int,dtype=float64)", lambda f, e: f(arr(e, "int2d"), dtype=np.float64)),
    ("f(a,pad)", lambda f, e: f(arr(e, "2d"), ((1, 0), (0, 0)), mode="constant")),
    ("f(fn,a)", lambda f, e: f(lambda b: b * 2, arr(e, "2d"), dtype=np.float64)),
    ("f(a,a,axes=1)", lambda f, e: f(arr(e, "2d"), arr(e, "2d"), axes=1)),
    ("f(a,chunks)", lambda f, e: f(arr(e, "lazy2d"), (4, 1))),
    ("f(np)", lambda f, e: f(np.arange(12.0).reshape(3, 4), chunks=(2, 2), spec=e.spec)),
    ("f(a,(16,))", lambda f, e: f(arr(e, "lazy2d"), (16,))),
    ("f(a,(3,4,4))", lambda f, e: f(arr(e, "lazy2d"), (3, 4, 4))),
    ("f(a[0:1],axis=0)", lambda f, e: f(arr(e, "lazy2d")[0:1], axis=0)),
    ("f(complex)", lambda f, e: f(arr(e, "complex2d"))),
    ("f(tall)", lambda f, e: f(arr(e, "tall"))),
    ("f(tall,full_matrices=False)", lambda f, e: f(arr(e, "tall"), full_matrices=False)),
    ("f(dtype,kind)", lambda f, e: f(np.float64, "real floating")),
    ("f(fn,a,depth)", lambda f, e: f(lambda b: b, arr(e, "lazy2d"), dtype=np.float64, depth=1, boundary=0)),
    ("f(gufunc)", lambda f, e: f(lambda b: b.sum(axis=-1), "(i)->()", arr(e, "tall"), output_dtypes=np.float64)),
    ("f(zarr path)", lambda f, e: f(e.zarr_input(), spec=e.spec)),
    ("f()", lambda f, e: f()),
]


def contains_array(x):
    from cubed.core.array import CoreArray
    from cubed.core.plan import FinalizedPlan

    if isinstance(x, (CoreArray, FinalizedPlan)):
        return True
    if isinstance(x, (list, tuple)):
        return any(contains_array(y) for y in x)
    return False


def probe(ctx, label, call, nt=True):
    """call(env) must have no store effect and must not execute."""
    import cubed

    env = Env(ctx.rng)
    try:
        ctx.evaluations += 1
        try:
            with warnings.catch_warnings():
                warnings.simplefilter("ignore")
                with cubed.raise_if_computes():
                    out = call(env)
        except Exception as e:
            msg = str(e)
            if "'compute' was called" in msg or (type(e).__name__ in ("AssertionError", "RuntimeError") and "compute" in msg.lower()):
                import traceback as _tb

                frames = [fr.name for fr in _tb.extract_tb(e.__traceback__)]
                allowed = {"__int__", "__index__", "__float__", "__bool__", "__array__", "__complex__"}
                # conversion of an ARRAY ARGUMENT to an in-memory array inside a library function is not one of the listed entry
                # points (the caller asked for a lazy result); a list of arrays handed to asarray is the caller's own conversion
                if "__array__" in frames and not (allowed - {"__array__"}) & set(frames) and "f([a,b])" not in label:
                    ctx.fail(f"lazy-call-computes:{label}", f"{label} converted an array argument to memory while building (frames: {frames[-6:]})", {"call": label})
                elif allowed & set(frames) or ("take" in frames) or ("__getitem__" in frames and "index" in frames):
                    ctx.count("allowed-conversion-or-array-index")      # an entry point the property lists
                    ctx.count("allowed:" + label.split(" ")[0] + ":" + ",".join(sorted(allowed & set(frames))))
                else:
                    ctx.fail(f"lazy-call-computes:{label}", f"{label} triggered a computation (frames: {frames[-6:]})", {"call": label})
            return None, "error"
        ev, files = env.effects()
        if ev:
            ctx.fail(f"lazy-call-writes:{label}", f"{label} wrote to the store: {[(e[1], e[2]) for e in ev[:3]]}", {"call": label})
        if files:
            ctx.fail(f"lazy-call-touches-workdir:{label}", f"{label} created {files[:3]} under the work directory", {"call": label})
        if nt and contains_array(out):
            ctx.nt(label)
        return out, "ok"
    finally:
        env.close()


def run(ctx):
    # functions that draw a picture (visualize) write it to the current directory by default: probe from a scratch directory
    import tempfile

    cwd = os.getcwd()
    scratch = tempfile.mkdtemp(prefix="c16_cwd_")
    os.chdir(scratch)
    try:
        _run(ctx)
    finally:
        os.chdir(cwd)
        shutil.rmtree(scratch, ignore_errors=True)


def _run(ctx):
    import cubed
    import cubed.array_api as xp
    import cubed.random

    warnings.filterwarnings("ignore")
    table = {}
    namespaces = [("cubed", cubed, cubed.__all__), ("xp", xp, xp.__all__),
                  ("linalg", xp.linalg, [n for n in dir(xp.linalg) if not n.startswith("_")]),
                  ("random", cubed.random, ["random", "integers"] if hasattr(cubed.random, "integers") else ["random"])]
    draws = ctx.n(2, 12)
    for ns, mod, names in namespaces:
        for name in names:
            if name in SKIP or name in ENTRY_POINTS:
                continue
            f = getattr(mod, name, None)
            if not callable(f) or inspect.isclass(f) or inspect.ismodule(f):
                continue
            found = None
            for tname, call in TEMPLATES:
                # every argument pattern the function accepts is probed (a function may be lazy for one pattern and
                # execute for another: asarray(x) vs asarray(x, dtype=...))
                out, st = probe(ctx, f"{ns}.{name} {tname}", lambda e, f=f, call=call: call(f, e))
                if st == "ok":
                    if found is None:
                        found = tname
                        for _ in range(draws - 1):
                            probe(ctx, f"{ns}.{name} {tname}", lambda e, f=f, call=call: call(f, e))
                    ctx.count("accepted-patterns")
            table[f"{ns}.{name}"] = found
            ctx.count("lazy-function-probed" if found else "no-template-accepted")
    # Array methods, operators, properties
    import operator

    methods = {
        "T": lambda a: a.T, "mT": lambda a: a.mT, "rechunk": lambda a: a.rechunk((4, 1)), "plan": lambda a: a.plan(),
        "plan(unoptimized)": lambda a: a.plan(optimize_graph=False), "blocks": lambda a: a.blocks[0, 0],
        "getitem": lambda a: a[1:3, ::2], "getitem-int": lambda a: a[1], "getitem-newaxis": lambda a: a[None, :, 1],
        "neg": operator.neg, "abs": operator.abs, "add": lambda a: a + a, "radd": lambda a: 1 + a, "mul": lambda a: a * 2.5,
        "matmul": lambda a: a @ a, "pow": lambda a: a ** 2, "lt": lambda a: a < 3, "eq": lambda a: a == a,
        "truediv": lambda a: a / 2, "floordiv": lambda a: a // 2, "mod": lambda a: a % 3, "sub": lambda a: a - 1,
        "shape": lambda a: a.shape, "dtype": lambda a: a.dtype, "chunks": lambda a: a.chunks, "nbytes": lambda a: a.nbytes,
        "numblocks": lambda a: a.numblocks, "chunkmem": lambda a: a.chunkmem, "repr": repr, "to_svg": lambda a: a.to_svg() if hasattr(a, "to_svg") else None,
        "array_namespace": lambda a: a.__array_namespace__(), "device": lambda a: a.device,
    }
    for nm, fn in methods.items():
        for kind in ("lazy2d", "2d"):
            probe(ctx, f"Array.{nm}({kind})", lambda e, fn=fn, kind=kind: fn(arr(e, kind)))
            probe(ctx, f"Array.{nm}({kind},work_dir)", lambda e, fn=fn, kind=kind: fn(arr(e, kind, e.spec_dir)))
        table[f"Array.{nm}"] = "method"
    # visualize to a scratch file (it may write the picture, nothing else)
    def vis(e):
        a = arr(e, "lazy2d") + 1
        out = os.path.join(e.tmp, "pic")
        try:
            a.visualize(filename=out)
            cubed.visualize(a, arr(e, "lazy2d"), filename=out + "2")
        except Exception:
            pass          # graphviz may be missing: the plan is still finalized before rendering
        return a.plan()
    probe(ctx, "visualize", vis)
    # lazy store / to_zarr
    def lazy_store(e):
        import zarr
        a = arr(e, "lazy2d")
        t = os.path.join(e.tmp, "target.zarr")
        r = cubed.store(a, t, compute=False)
        r2 = cubed.to_zarr(arr(e, "lazy2d"), os.path.join(e.tmp, "t2.zarr"), compute=False)
        assert not os.path.exists(t) and not os.path.exists(os.path.join(e.tmp, "t2.zarr")), "lazy store created the target"
        # targets given as open Store objects (with and without a path inside the store)
        sd = os.path.join(e.tmp, "storedir")
        ls = zarr.storage.LocalStore(sd)
        ms, ms2 = zarr.storage.MemoryStore(), zarr.storage.MemoryStore()
        r3 = cubed.to_zarr(arr(e, "lazy2d"), ls, path="grp/x", compute=False)
        r4 = cubed.store([arr(e, "lazy2d")], [ms], compute=False)
        r5 = cubed.to_zarr(arr(e, "2d"), ms2, compute=False)
        for rr in (r3, r4, r5):
            for y in (rr if isinstance(rr, (list, tuple)) else [rr]):
                if hasattr(y, "plan"):
                    y.plan()
        files = [os.path.join(d_, f_) for d_, _, fs in os.walk(sd) for f_ in fs] if os.path.isdir(sd) else []
        assert not files, f"lazy to_zarr into a LocalStore wrote {files[:3]} while building"
        assert not ms._store_dict and not ms2._store_dict, f"lazy store into a MemoryStore wrote {list(ms._store_dict)[:3] + list(ms2._store_dict)[:3]} while building"
        return r
    out, st = probe(ctx, "store(compute=False)", lazy_store)
    if st == "error":
        ctx.fail("lazy-store-creates-target", "store/to_zarr with compute=False created the target or failed", {"call": "store(compute=False)"})
    # storage-backed inputs: wrapping a user's Zarr array (with or without an explicit dtype / chunks) and building on it must not read
    # any of its data chunks before an entry point runs (metadata reads are not data)
    def input_reads(e, how):
        import zarr
        from harness.tracing_store import Trace, TracingStore, is_chunk_key

        tr = Trace()
        ist = TracingStore(zarr.storage.MemoryStore(), tr)
        z = zarr.create_array(store=ist, shape=(6, 4), dtype="int32", chunks=(2, 2))
        z[...] = np.arange(24, dtype="int32").reshape(6, 4)
        tr.events.clear()
        spec = e.spec
        if how == "asarray":
            a = xp.asarray(z, spec=spec)
        elif how == "asarray-dtype":
            a = xp.asarray(z, dtype=xp.float64, spec=spec)
        elif how == "asarray-same-dtype":
            a = xp.asarray(z, dtype=xp.int32, spec=spec)
        elif how == "from_array":
            a = cubed.from_array(z, spec=spec)
        elif how == "from_array-chunks":
            a = cubed.from_array(z, chunks=(2, 4), spec=spec)
        elif how == "from_zarr":
            a = cubed.from_zarr(ist, spec=spec)
        else:
            a = cubed.from_zarr(z, spec=spec) if how == "from_zarr-array" else xp.asarray(z, spec=spec)
        b = xp.sum(xp.add(a, a), axis=0)
        b.plan()
        try:
            b.visualize(filename=os.path.join(e.tmp, "g"), show_hidden=True)
        except Exception:
            pass
        reads = [ev[2] for ev in tr.events if ev[1] == "get" and not ev[2].endswith("zarr.json") and (ev[2] == "c" or ev[2].startswith("c/") or "/c/" in ev[2])]
        assert not reads, f"{how}: {len(reads)} data chunks of the INPUT array were read while building / planning: {reads[:4]}"
        return b
    for how in ["asarray", "asarray-dtype", "asarray-same-dtype", "from_array", "from_array-chunks", "from_zarr", "from_zarr-array"]:
        out, st = probe(ctx, f"build-on-zarr-input:{how}", lambda e, how=how: input_reads(e, how))
        if st == "error":
            try:
                env2 = Env(ctx.rng)
                try:
                    input_reads(env2, how)
                finally:
                    env2.close()
            except AssertionError as ex:
                ctx.fail(f"lazy-call-reads-input:{how}", str(ex), {"call": f"build-on-zarr-input:{how}"})
            except Exception:
                ctx.count("zarr-input-declined:" + how)
    # compositions
    fns = [n for n, t in table.items() if t in ("f(a)", "f(a,b)", "f(a,axis=0)") and n.startswith("xp.")]
    for _ in range(ctx.n(30, 400)):
        def compose(e):
            x = arr(e, "lazy2d")
            for _ in range(ctx.rng.randint(2, 3)):
                n = ctx.rng.choice(fns)
                f = getattr(xp, n.split(".", 1)[1])
                t = table[n]
                try:
                    y = f(x) if t == "f(a)" else (f(x, x) if t == "f(a,b)" else f(x, axis=0))
                except Exception:
                    continue
                if hasattr(y, "shape") and getattr(y, "ndim", 0) == 2 and y.shape == (4, 4) and str(y.dtype) == "float64":
                    x = y
            x.plan()
            return x
        probe(ctx, "composition", compose)
    ctx.dist["public_callables_with_a_template"] = sum(1 for v in table.values() if v)
    ctx.dist["public_callables_without_template"] = sorted(k for k, v in table.items() if not v)
    ctx.sample({"templates": dict(list(table.items())[:15])})
    from harness.props import c10

    c10.model_suite(ctx, lazy_only=True)


def search(ctx):
    pass


def replay(ctx, obj):
    print(json.dumps(obj, indent=1, default=str)[:3000])
    return 0
