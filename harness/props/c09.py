"""C09 - resume after a crash gives the same result and never trusts an incomplete array."""
from __future__ import annotations

import json
import warnings

import numpy as np

from harness import gen_programs as G
from harness.adv_executor import AdvExecutor
from harness.framework import cbool, pmap
from harness.obs import Built, keys_term, parse_key
from harness.tracing_store import CrashNow, is_chunk_key

LEVEL = "proof"
TRANSLATED_KERNELS = ["already_computed", "resume.wiring"]   # harness/translate.py: already_computed is re-translated from /repo on every run and proved equal to Model.Resume
RULE = ("generated programs (fused and unfused, rechunks with multi-chunk tasks, several outputs) are run to a crash point - after "
        "every k-th task and before every j-th chunk write (quick: sampled, thorough: all) - on a clearable tracing store, then "
        "compute(resume=True) runs on a real executor; result and every stored chunk are compared with an uninterrupted run; the set "
        "of ops the resumed run executed is compared with Model.ExecObs.resume_skips evaluated in Coq on the chunk keys present at "
        "restart; chunks present at restart must survive unchanged. non-trivial = crash point strictly inside the run with >=2 "
        "pipeline ops; distinct = program x crash point")
ASSUMPTIONS = ["a crash leaves a subset of whole chunk writes (Zarr set of one key is atomic)",
               "targets are the ones the computation creates, or empty user-supplied Zarr arrays (store scenarios: target chunks equal to or dividing "
               "the source chunks, crash at every task boundary); a pre-existing fully initialised user target is outside the explored space"]
TRUSTED = ["tracing WrapperStore write budget (CrashNow raised before the j-th chunk write)"]


def array_keys(arr_target, name):
    """all chunk keys (as (id, coords)) of a lazy zarr array from its metadata."""
    import itertools
    import math

    shape, chunks = arr_target.shape, arr_target.chunks
    aid = int(name.rsplit("-", 1)[1])
    nb = [max(1, math.ceil(n / c)) if n > 0 else 0 for n, c in zip(shape, chunks)]   # a zero-length axis has no stored chunks (zarr nchunks == 0)
    return [(aid, tuple(b)) for b in itertools.product(*[range(n) for n in nb])]


def work(part, n):
    import random

    import cubed
    from cubed.storage.zarr import LazyZarrArray

    k = 0
    while k < n:
        prog = G.gen_program(part.rng, nstmts=part.rng.randint(2, 5), allow_zero=False, maxlen=7)
        og = part.rng.random() < 0.5
        try:
            b = Built(prog)
            ref_res = b.compute(AdvExecutor(), optimize_graph=og)
        except Exception:
            continue
        k += 1
        ref = b.snapshot()
        obs, order = b.task_observations()
        T = len(order)
        W = b.trace.chunk_writes
        plan = cubed.core.array.plan(*b.outs, optimize_graph=og)
        # ops of the finalized plan in topological order with their output chunk keys
        import networkx as nx
        ops = []
        out_ids = {}
        for name in nx.topological_sort(plan.dag):
            d = plan.dag.nodes[name]
            if d.get("pipeline") is None:
                continue
            outs = [(o, plan.dag.nodes[o].get("target")) for o in plan.dag.successors(name)]
            always = name == "create-arrays" or all(t is None for _, t in outs) or any(t is not None and len(t.shape) == 0 for _, t in outs)
            keys = []
            for o, t in outs:
                if t is not None and isinstance(t, LazyZarrArray):
                    keys.extend(array_keys(t, o))
            ops.append((name, always, keys))
            out_ids[name] = [int(o.rsplit("-", 1)[1]) for o, t in outs if t is not None and isinstance(t, LazyZarrArray)]
        ops0 = ops
        points = [("task", i) for i in range(0, T + 1)] + [("write", j) for j in range(0, W + 1)]
        if part.tier == "quick":
            points = part.rng.sample(points, min(len(points), 5))
        for kind, at in points:
            desc = {"prog": prog, "optimize_graph": og, "crash": [kind, at], "tasks": T, "chunk_writes": W}
            b.clear()
            ex = AdvExecutor(crash_after_tasks=at) if kind == "task" else AdvExecutor()
            if kind == "write":
                b.trace.write_budget = at
            crashed = False
            try:
                b.compute(ex, optimize_graph=og)
            except CrashNow:
                crashed = True
            except Exception as e:
                part.fail("crash-run-failed-differently", f"{type(e).__name__}: {e}", desc)
                continue
            b.trace.write_budget = None
            before = b.snapshot()
            present = sorted({parse_key(key)[:2] for key in before if is_chunk_key(key) and parse_key(key)})
            b.trace.clear()
            ran = []

            class CB(cubed.Callback):
                def on_operation_start(self, event):
                    ran.append(event.name)

            exname = part.rng.choice(["single-threaded", "threads"])
            from cubed.runtime.create import create_executor
            part.evaluations += 1
            try:
                res = b.compute(create_executor(exname), optimize_graph=og, resume=True, callbacks=[CB()])
            except NotImplementedError:
                part.count("resume-refused")
                continue
            except Exception as e:
                part.fail("resume-failed", f"resume after crash at {kind} {at}: {type(e).__name__}: {e}", desc)
                continue
            after = b.snapshot()
            part.count("crash-kind:" + kind)
            part.count("crashed" if crashed else "ran-to-completion")
            if crashed and 0 < at and len(ops) >= 3:
                part.nt(desc)
            for r0, r1 in zip(ref_res, res):
                if not (np.asarray(r0).shape == np.asarray(r1).shape and np.array_equal(np.asarray(r0), np.asarray(r1), equal_nan=True)):
                    part.fail("resume-result-differs", f"resume after crash at {kind} {at} gives a different result", desc)
            bad = [key for key in ref if is_chunk_key(key) and after.get(key) != ref[key]]
            if bad:
                part.fail("resume-store-differs", f"after resume {len(bad)} chunks differ from an uninterrupted run, e.g. {bad[:3]}", desc)
            wiped = [key for key in before if is_chunk_key(key) and (key not in after)]
            if wiped or any(e[1] == "delete" for e in b.trace.events):
                part.fail("resume-wiped-chunks", f"chunks present at restart were removed: {wiped[:3]}", desc)
            # model prediction of the skipped ops
            # an output array whose metadata was never created is incomplete whatever its chunk count (a zero-length array has
            # no chunk keys at all): it is represented by one extra key per output array that is present iff the metadata is
            meta = {int(key.split("/")[0].rsplit("-", 1)[1]) for key in before
                    if key.endswith("zarr.json") and key.count("/") == 1 and key.split("/")[0].rsplit("-", 1)[-1].isdigit()}
            SENT = (9999,)
            present = sorted(set(present) | {(a_, SENT) for a_ in meta})
            ops = [(nm, al, list(ks) + [(a_, SENT) for a_ in out_ids[nm]]) for nm, al, ks in ops0]
            opt = "[" + "; ".join(f"({cbool(al)}, {keys_term(keys)})" for _, al, keys in ops) + "]"
            skipped_real = [name not in ran for name, _, _ in ops]
            part.case("resume_decisions", {"expr": f"boollist_eqb (resume_skips {keys_term(present)} {opt}) [" + "; ".join(cbool(x) for x in skipped_real) + "]",
                                           "desc": desc, "show": f"resume_skips {keys_term(present)} {opt}"})
            # arrays completely written before the interruption are not recomputed
            for (name, al, keys), sk in zip(ops, skipped_real):
                if not al and keys and all(kk in present for kk in keys) and not sk:
                    part.fail("complete-array-recomputed", f"op {name}: all {len(keys)} output chunks were present but it ran again", desc)
                if sk and not all(kk in present for kk in keys):
                    part.fail("incomplete-array-skipped", f"op {name} was skipped although chunks were missing", desc)
        part.sample({"prog": prog["stmts"][:3], "tasks": T, "chunk_writes": W, "ops": [(nm, al, len(ks)) for nm, al, ks in ops]}, limit=1)


def store_resume(part, n):
    """lazy store of a not yet computed array into an existing, empty user-supplied Zarr array whose chunks equal or divide the source
    chunks (every task then writes several stored chunks), crash at every task boundary, resume; then resume once more"""
    import tempfile

    import cubed
    import cubed.array_api as xp
    import zarr
    from cubed.runtime.create import create_executor

    for _ in range(n):
        nd = part.rng.choice([1, 1, 2])
        tchunks = tuple(part.rng.randint(1, 3) for _ in range(nd))
        mult = tuple(part.rng.choice([1, 2, 2, 3]) for _ in range(nd))
        schunks = tuple(t * m for t, m in zip(tchunks, mult))
        shape = tuple(c * part.rng.randint(1, 3) - part.rng.choice([0, 0, 1]) * (c > 1) for c in schunks)
        if any(n_ <= 0 for n_ in shape):
            continue
        data = (np.arange(int(np.prod(shape)), dtype=np.int64) + 1).reshape(shape)
        expected = data * 10
        tmp = tempfile.mkdtemp(prefix="c09store_")
        spec = cubed.Spec(work_dir=tmp, allowed_mem="200MB")
        z = zarr.create_array(store=f"{tmp}/out.zarr", shape=shape, dtype=np.int64, chunks=tchunks, fill_value=0)
        a = xp.asarray(data, chunks=schunks, spec=spec)
        b = xp.multiply(a, xp.asarray(10, spec=spec))
        try:
            out = cubed.to_zarr(b, z, compute=False)
        except Exception:
            part.count("store-declined")
            continue
        plan = cubed.core.array.plan(out)
        T = plan.num_tasks
        for at in range(0, T + 1):
            desc = {"store_resume": {"shape": shape, "source_chunks": schunks, "target_chunks": tchunks, "crash_after_tasks": at, "tasks": T}}
            import shutil
            for sub in __import__("pathlib").Path(f"{tmp}/out.zarr").glob("c*"):
                shutil.rmtree(sub, ignore_errors=True)          # back to "no chunk stored"
            try:
                out.compute(executor=AdvExecutor(crash_after_tasks=at), _return_in_memory_array=False)
                crashed = False
            except CrashNow:
                crashed = True
            except Exception as e:
                part.fail("crash-run-failed-differently", f"{type(e).__name__}: {e}", desc)
                break
            part.evaluations += 1
            n_before = z.nchunks_initialized
            ran, ran2 = [], []

            class CB(cubed.Callback):
                def __init__(self, acc):
                    self.acc = acc

                def on_operation_start(self, event):
                    self.acc.append(event.name)

            try:
                out.compute(executor=create_executor(part.rng.choice(["single-threaded", "threads"])), resume=True, callbacks=[CB(ran)],
                            _return_in_memory_array=False)
            except Exception as e:
                part.fail("resume-failed", f"resume of a store into an existing array: {type(e).__name__}: {e}", desc)
                break
            got = z[...]
            part.count("store-resume:" + ("crashed" if crashed else "complete"))
            if crashed and 0 < n_before < z.nchunks:
                part.nt(desc)
            if not np.array_equal(got, expected):
                part.fail("resume-result-differs", f"store into an existing array with chunks {tchunks} (source chunks {schunks}): after a crash with "
                          f"{n_before} of {z.nchunks} chunks stored and resume the target differs from the source", desc)
                break
            try:
                out.compute(executor=create_executor("single-threaded"), resume=True, callbacks=[CB(ran2)], _return_in_memory_array=False)
            except Exception as e:
                part.fail("resume-failed", f"second resume: {type(e).__name__}: {e}", desc)
                break
            if [o for o in ran2 if o != "create-arrays"]:
                part.fail("complete-array-recomputed", f"second resume of a completely stored target ran {ran2} again", desc)
                break
        import shutil
        shutil.rmtree(tmp, ignore_errors=True)


def run(ctx):
    warnings.filterwarnings("ignore")
    N = ctx.n(60, 600)
    per = 5
    pmap(ctx, store_resume, [ctx.n(3, 12)] * 6, procs=6)
    cases = pmap(ctx, work, [per] * (N // per), procs=12)
    ctx.corr("resume_decisions", "Model.Util Model.Keys Model.Exec Model.ExecObs", cases.get("resume_decisions", []), chunk=150)


def search(ctx):
    pass


def replay(ctx, obj):
    print(json.dumps(obj, indent=1, default=str)[:4000])
    return 0
