"""A zarr WrapperStore that records every get / set / delete (attributed to the task
that is running, when the adversarial executor says which one that is), can inject
latency and faults, and can abort the computation after a given number of chunk writes.
Import-safe (spawned worker processes re-import it)."""
from __future__ import annotations

import os
import threading
import time

from zarr.storage import WrapperStore

class _Current:
    """Which task is running. A plain global: the adversarial executor runs tasks one at a time, while zarr
    performs store IO on its own event-loop thread (so a thread-local would not be visible there)."""
    task = None


CURRENT = _Current()   # .task = (op name, tuple(coords)) set by harness/adv_executor.py


class CrashNow(BaseException):
    """Simulated crash (BaseException so that retry wrappers do not swallow it)."""


class Trace:
    """Shared recorder: a list in this process and optionally an O_APPEND log file for other processes."""

    def __init__(self, logfile=None):
        self.events = []          # (seq, kind, key, info, task)
        self.lock = threading.Lock()
        self.logfile = logfile
        self.write_budget = None  # abort with CrashNow when this many chunk writes have happened
        self.chunk_writes = 0
        self.latency = None       # callable(kind, key) -> seconds
        self.fail = None          # callable(kind, key) -> Exception or None

    def __getstate__(self):
        d = dict(self.__dict__)
        d["events"] = []
        d.pop("lock", None)
        d["latency"] = None
        d["fail"] = None
        return d

    def __setstate__(self, d):
        self.__dict__.update(d)
        self.lock = threading.Lock()

    def record(self, kind, key, info=None, t0=None):
        task = getattr(CURRENT, "task", None)
        t1 = time.monotonic_ns()
        with self.lock:
            self.events.append((len(self.events), kind, key, info, task, t0 if t0 is not None else t1, t1))
        if self.logfile:
            fd = os.open(self.logfile, os.O_WRONLY | os.O_APPEND | os.O_CREAT)
            try:
                os.write(fd, f"{t0 if t0 is not None else t1} {t1} {os.getpid()} {kind} {key} {info}\n".encode())
            finally:
                os.close(fd)

    def load_log(self):
        """Events written by other processes (CLOCK_MONOTONIC is system-wide on Linux)."""
        out = []
        if self.logfile and os.path.exists(self.logfile):
            for i, line in enumerate(open(self.logfile).read().splitlines()):
                t0, t1, pid, kind, key, info = line.split(" ", 5)
                out.append((i, kind, key, info, None, int(t0), int(t1)))
        return out

    def clear(self):
        with self.lock:
            self.events.clear()
            self.chunk_writes = 0


def is_chunk_key(key: str) -> bool:
    """zarr v3 chunk keys look like 'array-003/c/0/1' (or '.../c' for 0-d); metadata is zarr.json."""
    parts = key.split("/")
    return "c" in parts[1:] and not key.endswith("zarr.json")


class TracingStore(WrapperStore):
    trace: Trace = None

    def __init__(self, store, trace=None):
        super().__init__(store)
        self.trace = trace if trace is not None else Trace()

    async def get(self, key, prototype, byte_range=None):
        t = self.trace
        if t.latency:
            d = t.latency("get", key)
            if d:
                time.sleep(d)
        t0 = time.monotonic_ns()
        r = await super().get(key, prototype, byte_range)
        t.record("get", key, "hit" if r is not None else "miss", t0)
        return r

    async def set(self, key, value, *a, **kw):
        t = self.trace
        if t.fail:
            e = t.fail("set", key)
            if e is not None:
                t.record("set-fault", key, None)
                raise e
        if t.write_budget is not None and is_chunk_key(key):
            if t.chunk_writes >= t.write_budget:
                raise CrashNow(f"crash before chunk write #{t.chunk_writes + 1} ({key})")
        if t.latency:
            d = t.latency("set", key)
            if d:
                time.sleep(d)
        t0 = time.monotonic_ns()
        r = await super().set(key, value, *a, **kw)
        if is_chunk_key(key):
            t.chunk_writes += 1
        t.record("set", key, len(value) if hasattr(value, "__len__") else None, t0)
        return r

    async def delete(self, key):
        self.trace.record("delete", key, None)
        return await super().delete(key)

    def with_read_only(self, read_only=False):
        return type(self)(self._store.with_read_only(read_only), self.trace)


def memory_tracing_store(trace=None):
    import zarr

    return TracingStore(zarr.storage.MemoryStore(), trace)
